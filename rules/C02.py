"""C02 — model results equal the evaluation of the graph whatever the file order (structural clauses)."""
import ast

from engine.arrays import Arr, Kw
from engine.index import own_nodes
from engine.report import AnalysisError

from . import arrayrules as R
from . import common as K
from .coverage import command_table_attr

SELF_READ_OK = {"lineno", "argument_lines", "result_name", "name", "display_name", "arguments", "inputs", "output", "is_fuzzy"}


def _key_is_raw_reference(fi, key):
    """the key visibly comes from an argument's raw value (`argument.value`, an element of it, a name bound to one)"""
    names = K.dep_names(fi, key) | K.names_in(key)
    src = K.src(K.expand(fi, key))
    if ".value" in src:
        return True
    for n in own_nodes(fi.node):
        tgt = None
        if isinstance(n, ast.Assign) and len(n.targets) == 1:
            tgt, val = n.targets[0], n.value
        elif isinstance(n, (ast.For, ast.comprehension)):
            tgt, val = n.target, n.iter
        if tgt is not None and (K.names_in(tgt) & names) and ".value" in K.src(val) and "result_name" not in K.src(val):
            return True
    return False


def byname_res(idx):
    return {d.cls.name: (d, r) for d, r in R.results(idx).values() if d.module.name.endswith(("eems.basic", "eems.fuzzy"))}


def run(ctx, idx):
    A = K.anchors(idx)
    ctx.assume("numpy axioms A1-A3, A14: which constructors and operators yield a MaskedArray")
    ctx.assume("C09 (no consumer mutates a shared result) and C01 (memoisation) make results independent of other consumers; reported under their ids")
    ctx.rule("C02.a", "Lazy by-name resolution: no Parameter.clean is reachable from Program.from_source / add_command over the call graph; the command table is indexed by a run-time name only in ResultParameter.clean (forward references are indistinguishable from backward ones).")
    ctx.rule("C02.b", "execute is a function of its inputs: no execute or helper stores to self, reads self.program / registry state, or touches files or the console except the I/O commands (those declaring a path parameter, and PrintVars).")
    ctx.rule("C02.c", "Metadata is inert: every execute accepts **kwargs, none reads key 'Metadata', delegating subclasses forward **kwargs.")
    ctx.rule("C02.e", "No execute writes in place through one of its inputs (the alias rule of C09.a): otherwise a shared intermediate result changes under its other consumers and the outcome depends on file order.")
    ctx.rule("C02.d", "Composability: every command whose output is Data returns kind Masked on every normal return, assuming its Data inputs are Masked (induction on graph depth).")
    ctx.rule("C02.m", "NormalizeMeanToMid keeps the end values of its curve when an extreme coincides with the neighbouring mean (C08.m's reading of the body, decided before the array analyser runs; listed here because the whole first or last segment of the conversion is wrong otherwise, for zero-inflated and two-valued columns).")
    from .C08 import mean_to_mid_dedupe

    mean_to_mid_dedupe(ctx, idx, "C02.m")
    # ---- a
    prog = A.program
    starts = [prog.methods[m] for m in ("from_source", "add_command") if m in prog.methods]
    if len(starts) != 2:
        raise AnalysisError("Program.from_source / add_command vanished")
    param_base = idx.cls("mpilot.params", "Parameter")
    cleans = [c.methods["clean"] for c in idx.subclasses(param_base) if "clean" in c.methods]
    ctx.floor("C02.a", "Parameter.clean implementations", len(cleans), 9)
    reach, parent = idx.reachable(starts)
    hit = [c for c in cleans if c in reach]
    con = "mpilot/program.py::Program.from_source::no-clean-at-load"
    if hit:
        ctx.violate("C02.a", con, "mpilot/program.py", starts[0].node.lineno,
                    "%s is reachable while loading (%s): references are resolved in file order, so a forward reference fails or binds differently" % (hit[0].qualname, " -> ".join(idx.chain(parent, hit[0]))))
    else:
        ctx.hold("C02.a", con, "mpilot/program.py", starts[0].node.lineno, "%d functions reachable from loading, none is a clean()" % len(reach))
    attr = command_table_attr(idx, A)
    n_lookup = 0
    # a lookup matters where loading or evaluating can reach it; a read-only accessor nobody on those paths calls decides nothing
    roots = list(starts) + [c.methods[m] for c in (prog, A.command) for m in ("run", "get_argument_value", "validate_params") if m in c.methods] + cleans
    roots += [d.execute for d, _r in R.results(idx).values()]
    on_path, _p = idx.reachable(roots)

    from .coverage import _after_loading_loop, _miss_changes_nothing

    load_reach, _lp = idx.reachable(starts)

    def error_path_only(fi, site):
        """no normal exit of the function is reachable from the lookup: whatever it finds, the call ends in an error"""
        try:
            cfg_ = K.cfg_of(idx, fi)
        except Exception:
            return False
        at = [x for x in cfg_.nodes if x.ast is not None and isinstance(x.ast, ast.AST) and any(site is y for y in ast.walk(x.ast))]
        at += [x for x in cfg_.nodes if isinstance(x.meta.get("value"), ast.AST) and any(site is y for y in ast.walk(x.meta["value"]))]
        return bool(at) and cfg_.exit not in cfg_.reachable(at)

    def off_path(fi, site=None):
        if fi is not None and fi not in on_path and fi.cls is prog:
            return True
        if fi is not None and site is not None and fi.cls is prog and error_path_only(fi, site):
            return True
        top_ = fi
        while top_ is not None and getattr(top_, "parent", None) is not None:
            top_ = top_.parent
        if top_ is not None and top_ not in load_reach and fi not in load_reach and top_.cls is not None and (top_.cls is prog or A.command in idx.mro(top_.cls)):
            # in the program or a command, reachable only once the program is loaded: the table is complete, so the order of the
            # file cannot show in what the lookup finds (what is done with the command found is the business of C01/C12/C14/C20)
            return True
        # while loading: a lookup after every command was added, or one whose 'not found' outcome changes nothing (decided by C02.g)
        return fi is not None and site is not None and fi in load_reach and (_after_loading_loop(fi, site) or _miss_changes_nothing(idx, fi, site))
    for mod, fi, n in K.scoped_nodes(idx):
        if isinstance(n, ast.Subscript) and isinstance(n.ctx, ast.Load) and isinstance(n.value, ast.Attribute) and n.value.attr == attr and not isinstance(n.slice, ast.Constant):
            n_lookup += 1
            ok = fi is not None and fi.cls is not None and fi.cls.name == "ResultParameter" and fi.name == "clean"
            if not ok and off_path(fi, n):
                ctx.hold("C02.a", "%s::table-lookup" % K.where(mod, fi), mod.rel, n.lineno, "off the evaluation path, or a load-time lookup whose miss changes nothing", nontrivial=False)
                continue
            if not ok and fi is not None and fi.cls is prog and not _key_is_raw_reference(fi, n.slice):
                raise AnalysisError("C02.a: `%s` in %s indexes the command table by a key that is not visibly a raw argument value (e.g. the result name of an already resolved command): cannot decide whether this is a second resolution of references" % (K.src(n), fi.qualname))
            ctx.ob("C02.a", "%s::table-lookup" % K.where(mod, fi), mod.rel, n.lineno, ok,
                   "run-time lookup by name in ResultParameter.clean" if ok else "the command table is indexed by name outside ResultParameter.clean: %s" % K.src(n))
        if isinstance(n, ast.Call) and isinstance(n.func, ast.Attribute) and n.func.attr == "get" and isinstance(n.func.value, ast.Attribute) and n.func.value.attr == attr:
            ok = fi is not None and fi.cls is not None and fi.cls.name == "ResultParameter"
            n_lookup += 1
            if not ok and off_path(fi, n):
                ctx.hold("C02.a", "%s::table-lookup" % K.where(mod, fi), mod.rel, n.lineno, "off the evaluation path, or a load-time lookup whose miss changes nothing", nontrivial=False)
                continue
            ctx.ob("C02.a", "%s::table-lookup" % K.where(mod, fi), mod.rel, n.lineno, ok, "lookup in ResultParameter" if ok else "the command table is queried by name outside ResultParameter.clean: %s" % K.src(n))
    ctx.floor("C02.a", "by-name lookups of the command table", n_lookup, 1)
    from .C01 import rule_h

    rule_h(ctx, idx, A, rule="C02.g")
    # ---- h: what a derived conversion evaluates is its base's body on the caller's own arguments and the fuzzy defaults
    from .C08 import SIBLINGS, delegation

    ctx.rule("C02.h", "A command defined by delegation evaluates its definition: each CvtToFuzzyX forwards the caller's arguments to the matching NormalizeX under the documented renames, supplies the fuzzy defaults (-1/+1) for whatever the caller may omit, and returns the clamped value of that call (C08.a's table).")
    byname = {}
    for d_, r_ in R.results(idx).values():
        byname.setdefault(d_.cls.name, (d_, r_))
    for name_, base_ in SIBLINGS.items():
        if name_ not in byname:
            raise AnalysisError("conversion command %s vanished" % name_)
        delegation(ctx, idx, byname[name_][0], byname[name_][1], base_, rule="C02.h")
    # ---- i: an explicit zero is a value (every command, not only the conversions of C08.g)
    ctx.rule("C02.i", "A numeric argument is used as the number it is: no execute body tests one for truthiness (`kwargs.get(X) or default`, `if threshold:`), which would treat an explicit 0 as an omitted argument and evaluate a different graph.")
    n_i = 0
    for key_, (d_, r_) in sorted(R.results(idx).items()):
        nt = [f for f in r_.findings if f[0] == "numtruth"]
        con_ = "%s.execute::zero-is-a-value" % d_.key
        n_i += 1
        if nt:
            ctx.violate("C02.i", con_, d_.module.rel, nt[0][1], nt[0][2])
        else:
            ctx.hold("C02.i", con_, d_.module.rel, d_.execute.node.lineno, "numeric parameters are not used as booleans", nontrivial=False)
    ctx.floor("C02.i", "execute bodies", n_i, 30)
    # ---- j: the statistics a command anchors its curve on are taken from the whole input
    from .C08 import mean_to_mid_points

    ctx.rule("C02.j", "NormalizeMeanToMid (and the fuzzy conversion built on it) anchors its curve on the minimum and maximum of the whole input; IgnoreZeros narrows only the means (C08.h's reading of the body, listed here because the result of the command is what C02 is about).")
    mean_to_mid_points(ctx, idx, byname_res(idx), "C02.j")
    # ---- l: the one operator with a removable singularity
    from .C06 import xor_quotient_guard

    ctx.rule("C02.l", "The exclusive-or is evaluated where every input is fully false: the quotient by (truest - FUZZY_MIN) is selected away there (where(truest <= FUZZY_MIN, FUZZY_MIN, ...)), not patched afterwards through the masked comparison (C06.d's reading of the body; listed here because a cell that comes out missing is inherited by every command downstream, in any order).")
    _xr = byname_res(idx).get("FuzzyXOr")
    if _xr is None:
        raise AnalysisError("C02.l: FuzzyXOr vanished")
    xor_quotient_guard(ctx, "C02.l", _xr[0], _xr[1], "; numpy.ma masks the 0/0 cell and an item store through a masked index writes the data only, so the cell stays missing - and every command downstream inherits a missing cell the evaluation of the graph does not have")
    # ---- o: a partial ordering of the layer stack must be total enough for every legal count
    ctx.rule("C02.o", "FuzzySelectedUnion evaluates for every legal NumberToConsider (1 .. the number of inputs): where the stack is put in order by partition / argpartition instead of a full sort, the pivot is a valid layer index for each of them - `partition(N)` with N = the number of inputs is out of bounds (Falsest of ALL inputs dies with ValueError / UnexpectedError).")
    _su = byname_res(idx).get("FuzzySelectedUnion")
    if _su is None:
        raise AnalysisError("C02.o: FuzzySelectedUnion vanished")
    _sue = _su[0].execute
    _parts = [c_ for c_ in ast.walk(getattr(_sue, "node_orig", None) or _sue.node) if isinstance(c_, ast.Call) and isinstance(c_.func, ast.Attribute) and c_.func.attr in ("partition", "argpartition") and c_.args]
    _und_o = []
    for c_ in _parts:
        k_ = c_.args[0]
        ksrc = K.src(K.expand(_sue, k_)) if isinstance(k_, ast.Name) else K.src(k_)
        # how the pivot relates to the count parameter, where it can be read off: the count itself (k = N: out of bounds when N = all
        # inputs), the count minus one, or `len(arrays) - count` (0 .. len - 1: fine)
        defs_ = [st_.value for st_ in ast.walk(_sue.node) if isinstance(st_, ast.Assign) and any(isinstance(t_, ast.Name) and isinstance(k_, ast.Name) and t_.id == k_.id for t_ in st_.targets)] if isinstance(k_, ast.Name) else [k_]
        verdicts = []
        for d_ in defs_:
            ds_ = K.src(K.expand(_sue, d_)) if not isinstance(d_, ast.Name) else K.src(K.expand(_sue, d_))
            ds_ = ds_.replace(" ", "")
            if "NumberToConsider" in ds_ and not ("-" in ds_):
                verdicts.append(False)
            elif "NumberToConsider" in ds_ and (ds_.startswith("len(") or ds_.endswith("-1")):
                verdicts.append(True)
            else:
                verdicts.append(None)
        if any(v_ is False for v_ in verdicts):
            ctx.violate("C02.o", "%s.execute::pivot-in-range" % _su[0].key, _su[0].module.rel, c_.lineno, "`%s` takes the count itself as the pivot: with NumberToConsider equal to the number of inputs - a legal request, the falsest (or truest) of ALL of them - the pivot is one past the last layer and numpy raises ValueError (kth out of bounds), so the model dies with UnexpectedError instead of evaluating" % K.src(c_)[:60])
        elif any(v_ is None for v_ in verdicts) or not verdicts:
            _und_o.append("C02.o: the pivot `%s` of the partial ordering is outside the forms read here" % ksrc[:50])
        else:
            ctx.hold("C02.o", "%s.execute::pivot-in-range" % _su[0].key, _su[0].module.rel, c_.lineno, "the pivot is a valid layer index for every legal count")
    if not _parts:
        ctx.hold("C02.o", "%s.execute::pivot-in-range" % _su[0].key, _su[0].module.rel, _sue.node.lineno, "the stack is sorted in full: no pivot to get wrong", nontrivial=False)
    # ---- n: the curve commands put their control points in order themselves
    ctx.rule("C02.n", "A curve is a function of its control points, not of the order they are listed in: NormalizeCurve / NormalizeCurveZScore sort the (raw, normal) pairs before interpolating (C08.b's reading) - a routine that needs ascending x (numpy.interp) fed with the points as listed returns other numbers, silently.")
    from .C08 import sorted_pairs as _sorted_pairs

    for _nm in ("NormalizeCurve", "NormalizeCurveZScore"):
        _cr = byname_res(idx).get(_nm)
        if _cr is None:
            raise AnalysisError("C02.n: %s vanished" % _nm)
        _sorted_pairs(ctx, idx, _cr[0], _cr[1], rule="C02.n")
    # ---- k: sharing is not a cycle
    from .coverage import false_cycle_reports

    ctx.rule("C02.k", "Other consumers of an intermediate result change nothing: no walk of the reference graph reports a result that is reached along two chains as a loop (a cycle test on a path collection that is never unwound rejects every diamond).")
    fc = false_cycle_reports(idx, A)
    con_k = "mpilot/program.py::Program.run::sharing-is-not-a-cycle"
    if fc:
        for f_, line_, text_ in fc[:2]:
            ctx.violate("C02.k", con_k, K.rel(f_), line_, text_)
    else:
        ctx.hold("C02.k", con_k, "mpilot/program.py", A.program_run.node.lineno, "no reference walk confuses visited with on-the-current-chain", nontrivial=False)
    # ---- b, c, d
    lost = []
    n_exec = 0
    for key, (d, r) in sorted(R.results(idx).items()):
        n_exec += 1
        fi = d.execute
        io = any(p.is_a(idx, "mpilot.params.PathParameter") for p in d.inputs.values()) or d.cls.name == "PrintVars"
        probs = []
        for line, attr_, node, fk in r.selfstores:
            probs.append((line, "stores to self.%s: the result depends on earlier executions" % attr_))
        for line, attr_, node, fk in r.selfreads:
            if attr_ not in SELF_READ_OK and attr_ not in ("result", "_result"):
                probs.append((line, "reads self.%s: the result depends on state outside its inputs" % attr_))
        for eff in r.effects:
            kind, line, text = eff[0], eff[1], eff[2]
            if kind in ("open-write", "open-read", "print", "file-write", "os-mutation") and not io:
                probs.append((line, "%s in a pure computation command: %s" % (kind, text)))
            if kind == "os-mutation" and not (io and any(("kwargs['%s']" % nm_) in text or ('kwargs["%s"]' % nm_) in text for nm_, p_ in d.inputs.items() if p_.is_a(idx, "mpilot.params.PathParameter"))):
                # (a writer may remove or replace the file its own path argument names - e.g. a probe it created itself)
                probs.append((line, "file-system mutation: %s" % text))
            if kind == "dependency-store":
                probs.append((line, "stores an attribute on a dependency: %s" % text))
        for f_ in r.findings:
            if f_[0] in ("arg-mutation", "shared-table-mutation"):
                probs.append((f_[1], f_[2]))
        for n in own_nodes(fi.node):
            if isinstance(n, (ast.Global, ast.Nonlocal)):
                probs.append((n.lineno, "declares global state"))
        for f_, deco_ in K.memoised_helpers(idx, fi)[:1]:
            probs.append((f_.node.lineno, "calls `%s`, whose results are kept between executions by `@%s` (keyed by its arguments only): what the command returns depends on what ran earlier in the process, and the cached object is handed out again to be modified in place" % (f_.name, deco_)))
        su_ = K.state_uses(idx, fi)
        if su_ and K.state_is_content_checked(idx, fi, su_):
            raise AnalysisError("C02.b: %s keeps module-level state `%s` but compares it with the text it has just read before reusing it (a content-validated cache): cannot decide whether the validation is complete" % (d.cls.name, su_[0][2][1]))
        for f_, n_, (m_, nm_) in su_[:1]:
            probs.append((n_.lineno, "uses module-level state `%s.%s` that functions mutate (a cache or registry kept between executions): the result depends on what ran earlier in the process, not on the command's inputs alone" % (m_, nm_)))
        con = "%s.execute::pure" % d.key
        if probs:
            ctx.violate("C02.b", con, d.module.rel, probs[0][0], "; ".join(p for _, p in probs[:3]))
        else:
            ctx.hold("C02.b", con, d.module.rel, fi.node.lineno, "no self/global stores; effects: %s" % (sorted({e[0] for e in r.effects}) or "none"), nontrivial=bool(r.effects))
        # e: a consumer that writes through an input makes results depend on who else consumes it, and in which order
        R.leaves_inputs_alone(ctx, "C02.e", d, r)
        # c
        own = d.cls.methods.get("execute")
        con = "%s.execute::metadata-inert" % d.key
        cp = []
        if own is not None and own.node.args.kwarg is None:
            cp.append("execute does not accept **kwargs: an optional Metadata argument is a TypeError")
        for k, how, node, fk, dflt in r.kwreads:
            if k == "Metadata":
                cp.append("reads kwargs[%r] (%s)" % (k, K.src(node)))
        for node, kwsnap, explicit, fk, target in r.super_calls:
            if node.func.attr == "execute" and kwsnap is None:
                cp.append("delegation does not forward **kwargs")
        if cp:
            ctx.violate("C02.c", con, d.module.rel, (own or fi).node.lineno, "; ".join(cp))
        else:
            ctx.hold("C02.c", con, d.module.rel, (own or fi).node.lineno, "**kwargs accepted, Metadata never read", nontrivial=False)
        # d
        if d.is_data():
            for n, s, v in R.ret_sites(d, r):
                con = R.ret_key(d, n) + "::masked"
                if isinstance(v, Arr) and v.kind == "masked":
                    ctx.hold("C02.d", con, d.module.rel, R.line_of(s), "returns a MaskedArray")
                    if d.is_fuzzy is True:
                        from engine.arrays import F_
                        ctx.ob("C02.d", R.ret_key(d, n) + "::fuzzy-is-floating", d.module.rel, R.line_of(s), v.dt == F_,
                               "fuzzy result is floating, as every fuzzy consumer assumes" if v.dt == F_ else
                               "this fuzzy producer may return an integer array: fuzzy consumers that finish with in-place float arithmetic (FuzzyUnion, CvtFromFuzzy) then fail, so the result cannot feed every fuzzy input")
                elif isinstance(v, Arr):
                    ctx.violate("C02.d", con, d.module.rel, R.line_of(s), "returns a %s ndarray: consumers that use .mask / .compressed() / numpy.ma semantics fail or read hidden data" % v.kind)
                elif getattr(v, "tag", None) == "opaque" or (type(v).__name__ == "Scal" and not (v.D or v.Pg) and v.const is None):
                    # the analyser lost track of the value (inputs went through a construct it does not follow): no verdict
                    lost.append("C02.d: %s line %d: the returned value could not be followed through the body (it comes out of a construct outside the array analyser's vocabulary)" % (d.cls.name, R.line_of(s)))
                else:
                    ctx.violate("C02.d", con, d.module.rel, R.line_of(s), "a command declaring Data output returns %s" % (getattr(v, "tag", type(v).__name__)))
    ctx.floor("C02.b", "execute bodies", n_exec, 30)
    # f: the value computed is the evaluation of the graph over the non-missing data
    ctx.rule("C02.f", "Values follow the graph: in every data command the returned mask covers the mask of every input the cells are computed from and no number hidden under a missing cell reaches a valid cell (the obligations of C03.a-c, restated here because a cell that should be missing but carries a value — or a value computed from fewer inputs than the graph names — is a wrong result); file readers mark missing exactly the cells equal to the declared missing value (an explicit 0 included).")
    from . import C03

    C03.coverage(ctx, idx, "C02.f", "C02.f", "C02.f")
    C03.readers(ctx, idx, "C02.f")
    if lost:
        raise AnalysisError(lost[0])
    if _und_o:
        raise AnalysisError(_und_o[0])
