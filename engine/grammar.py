"""Engine E, part 2: the PLY lexer rules and grammar of mpilot/parser/parser.py as data (pure ast)."""
import ast

from .report import AnalysisError


class TokenRule(object):
    def __init__(self, name, pattern, kind, node, order):
        self.name = name  # e.g. t_FLOAT
        self.token = name[2:]
        self.pattern = pattern
        self.kind = kind  # 'func' | 'str'
        self.node = node
        self.order = order
        self.returns_token = None
        self.ignored = name.startswith("t_ignore_")


class Production(object):
    def __init__(self, lhs, rhs, prec, func, alt_index):
        self.lhs = lhs
        self.rhs = rhs
        self.prec = prec
        self.func = func  # FuncInfo-like (ast node)
        self.alt = alt_index

    def __repr__(self):
        return "%s : %s" % (self.lhs, " ".join(self.rhs) or "<empty>")


class Lexicon(object):
    def lexer_converts(self, name):
        """the builtin ('int' / 'float' / ...) the token function of `name` converts its text with, or None when the token keeps
        its spelling"""
        import ast as _ast

        r = self.rule(name)
        if r is None or not isinstance(r.node, _ast.FunctionDef):
            return None
        t = r.node.args.args[-1].arg
        for n in _ast.walk(r.node):
            if isinstance(n, _ast.Assign) and len(n.targets) == 1 and isinstance(n.targets[0], _ast.Attribute) and n.targets[0].attr == "value" and isinstance(n.targets[0].value, _ast.Name) and n.targets[0].value.id == t:
                v = n.value
                if isinstance(v, _ast.Call) and isinstance(v.func, _ast.Name) and len(v.args) == 1 and isinstance(v.args[0], _ast.Attribute) and v.args[0].attr == "value":
                    return v.func.id
        return None

    def __init__(self, idx):
        mod = idx.module_of("mpilot.parser.parser")
        self.mod = mod
        lex = mod.classes.get("Lexer")
        par = mod.classes.get("Parser")
        if lex is None or par is None:
            raise AnalysisError("Lexer/Parser classes vanished from mpilot/parser/parser.py")
        self.lexer_cls = lex
        self.parser_cls = par
        self.tokens = None
        self.rules = []
        self.t_ignore = None
        self.t_error = None
        order = 0
        def norm(ci, fn):
            """the helper-inlined body of a method (see engine/normalize.py)"""
            m = ci.methods.get(fn.name)
            return m.node if m is not None else fn

        for s in lex.node.body:
            if isinstance(s, ast.Assign) and len(s.targets) == 1 and isinstance(s.targets[0], ast.Name):
                nm = s.targets[0].id
                if nm == "tokens":
                    try:
                        self.tokens = list(idx.const(mod, s.value))
                    except KeyError:
                        raise AnalysisError("Lexer.tokens is not a literal list")
                elif nm == "t_ignore":
                    self.t_ignore = idx.const(mod, s.value)
                elif nm.startswith("t_"):
                    try:
                        pat = idx.const(mod, s.value)
                    except KeyError:
                        raise AnalysisError("token rule %s is not a literal pattern" % nm)
                    self.rules.append(TokenRule(nm, pat, "str", s, order))
                    order += 1
            elif isinstance(s, ast.FunctionDef) and s.name.startswith("t_"):
                s = norm(lex, s)
                if s.name == "t_error":
                    self.t_error = s
                    continue
                pat = None
                for d in s.decorator_list:
                    if isinstance(d, ast.Call) and getattr(d.func, "id", getattr(d.func, "attr", "")) == "TOKEN" and d.args:
                        try:
                            pat = idx.const(mod, d.args[0])
                        except KeyError:
                            raise AnalysisError("@TOKEN argument of %s is not a literal" % s.name)
                if pat is None:
                    pat = ast.get_docstring(s)
                if pat is None:
                    raise AnalysisError("token function %s has no pattern" % s.name)
                r = TokenRule(s.name, pat, "func", s, order)
                order += 1
                rets = [n for n in ast.walk(s) if isinstance(n, ast.Return)]
                r.returns_token = bool(rets) and all(n.value is not None and isinstance(n.value, ast.Name) and n.value.id == s.args.args[-1].arg for n in rets)
                self.rules.append(r)
        if self.tokens is None:
            raise AnalysisError("Lexer.tokens vanished")
        # PLY priority: functions in definition order, then strings by decreasing pattern length
        funcs = [r for r in self.rules if r.kind == "func"]
        strs = sorted([r for r in self.rules if r.kind == "str"], key=lambda r: -len(r.pattern))
        self.priority = funcs + strs
        # grammar
        self.productions = []
        self.precedence = []
        self.p_error = None
        self.parse_method = par.methods.get("parse")
        for s in par.node.body:
            if isinstance(s, ast.Assign) and isinstance(s.targets[0], ast.Name) and s.targets[0].id == "precedence":
                try:
                    self.precedence = list(idx.const(mod, s.value))
                except KeyError:
                    self.precedence = []
            if isinstance(s, ast.FunctionDef) and s.name.startswith("p_"):
                s = norm(par, s)
                if s.name == "p_error":
                    self.p_error = s
                    continue
                doc = ast.get_docstring(s)
                if not doc:
                    raise AnalysisError("grammar function %s has no production docstring" % s.name)
                self._parse_doc(doc, s)
        self.start = self.productions[0].lhs if self.productions else None

    def _parse_doc(self, doc, func):
        lhs = None
        alt = 0
        for line in doc.splitlines():
            line = line.strip()
            if not line:
                continue
            if ":" in line and not line.startswith("|"):
                head, _, rest = line.partition(":")
                # a colon may be... token names never contain ':' in PLY docs
                lhs = head.strip()
                body = rest
            elif line.startswith("|"):
                body = line[1:]
            else:
                raise AnalysisError("cannot parse production line %r in %s" % (line, func.name))
            syms = body.split()
            prec = None
            if "%prec" in syms:
                i = syms.index("%prec")
                prec = syms[i + 1]
                syms = syms[:i]
            self.productions.append(Production(lhs, syms, prec, func, alt))
            alt += 1

    def nonterminals(self):
        return {p.lhs for p in self.productions}

    def rule(self, token):
        for r in self.rules:
            if r.token == token and not r.ignored:
                return r
        return None


def derives(productions, start, tokens):
    """Earley recogniser over the extracted productions: does `start` derive exactly this sequence of token names?"""
    by_lhs = {}
    for p in productions:
        by_lhs.setdefault(p.lhs, []).append(tuple(p.rhs))
    nts = set(by_lhs)
    n = len(tokens)
    chart = [set() for _ in range(n + 1)]
    for rhs in by_lhs.get(start, []):
        chart[0].add((start, rhs, 0, 0))
    for i in range(n + 1):
        work = list(chart[i])
        while work:
            lhs, rhs, dot, origin = work.pop()
            if dot < len(rhs):
                sym = rhs[dot]
                if sym in nts:
                    for r2 in by_lhs[sym]:
                        item = (sym, r2, 0, i)
                        if item not in chart[i]:
                            chart[i].add(item)
                            work.append(item)
                    # nullable completion (no empty productions expected, handled for completeness)
                    for (l3, r3, d3, o3) in list(chart[i]):
                        if l3 == sym and d3 == len(r3) and o3 == i:
                            item = (lhs, rhs, dot + 1, origin)
                            if item not in chart[i]:
                                chart[i].add(item)
                                work.append(item)
                elif i < n and tokens[i] == sym:
                    chart[i + 1].add((lhs, rhs, dot + 1, origin))
            else:
                for (l2, r2, d2, o2) in list(chart[origin]):
                    if d2 < len(r2) and r2[d2] == lhs:
                        item = (l2, r2, d2 + 1, o2)
                        if item not in chart[i]:
                            chart[i].add(item)
                            work.append(item)
    return any(l == start and d == len(r) and o == 0 for (l, r, d, o) in chart[n])


# ------------------------------------------------------------------------------------------------------------------------------
# The parser PLY generates from the extracted productions: LALR(1) table (canonical LR(1) item sets merged by core) with yacc's
# conflict resolution (precedence of the token against the precedence of the rule; shift when neither has one; of two reductions
# the rule written first).  `lr_accepts` runs that automaton on a sequence of token NAMES - an evaluation of the extracted table,
# not of mpilot.
class LRTable(object):
    def __init__(self, productions, start, precedence, merge=True):
        self.merge = merge
        self.prods = [("S'", (start,), None, 0)] + [(p.lhs, tuple(p.rhs), p.prec, getattr(p.func, "lineno", 0) * 100 + p.alt) for p in productions]
        self.nts = {p[0] for p in self.prods}
        self.prec = {}
        for level, row in enumerate(precedence, 1):
            for t in row[1:]:
                self.prec[t] = (row[0], level)
        self.conflicts = []  # (state, token, kind, chosen, production)
        self._first()
        self._build()

    def _first(self):
        self.nullable = set()
        ch = True
        while ch:
            ch = False
            for lhs, rhs, _p, _l in self.prods:
                if lhs not in self.nullable and all(s in self.nullable for s in rhs):
                    self.nullable.add(lhs)
                    ch = True
        self.first = {n: set() for n in self.nts}
        ch = True
        while ch:
            ch = False
            for lhs, rhs, _p, _l in self.prods:
                for s in rhs:
                    add = self.first[s] if s in self.nts else {s}
                    if not add <= self.first[lhs]:
                        self.first[lhs] |= add
                        ch = True
                    if s not in self.nullable:
                        break

    def _first_seq(self, seq, la):
        out = set()
        for s in seq:
            if s in self.nts:
                out |= self.first[s]
                if s not in self.nullable:
                    return out
            else:
                out.add(s)
                return out
        out.add(la)
        return out

    def _closure(self, items):
        items = set(items)
        work = list(items)
        by_lhs = {}
        for i, p in enumerate(self.prods):
            by_lhs.setdefault(p[0], []).append(i)
        while work:
            pi, dot, la = work.pop()
            rhs = self.prods[pi][1]
            if dot < len(rhs) and rhs[dot] in self.nts:
                for la2 in self._first_seq(rhs[dot + 1:], la):
                    for pj in by_lhs[rhs[dot]]:
                        it = (pj, 0, la2)
                        if it not in items:
                            items.add(it)
                            work.append(it)
        return frozenset(items)

    def _build(self):
        start = self._closure({(0, 0, "$end")})
        states = {start: 0}
        order = [start]
        trans = {}
        i = 0
        while i < len(order):
            st = order[i]
            moves = {}
            for pi, dot, la in st:
                rhs = self.prods[pi][1]
                if dot < len(rhs):
                    moves.setdefault(rhs[dot], set()).add((pi, dot + 1, la))
            for sym, kern in moves.items():
                nxt = self._closure(kern)
                if nxt not in states:
                    states[nxt] = len(order)
                    order.append(nxt)
                trans[(i, sym)] = states[nxt]
            i += 1
            if len(order) > 20000:
                raise AnalysisError("LR(1) construction exceeds 20000 states")
        # merge by core
        core_id = {}
        merged = []
        of = {}
        for n, st in enumerate(order):
            core = frozenset((pi, dot) for pi, dot, _la in st) if self.merge else st
            if core not in core_id:
                core_id[core] = len(merged)
                merged.append(set())
            of[n] = core_id[core]
            merged[of[n]] |= st
        self.goto = {}
        for (n, sym), m in trans.items():
            self.goto[(of[n], sym)] = of[m]
        self.action = []
        for s, st in enumerate(merged):
            act = {}
            shifts = {}
            reduces = {}
            for pi, dot, la in st:
                rhs = self.prods[pi][1]
                if dot < len(rhs):
                    if rhs[dot] not in self.nts:
                        shifts[rhs[dot]] = self.goto[(s, rhs[dot])]
                else:
                    reduces.setdefault(la, set()).add(pi)
            for a, ps in reduces.items():
                p = min(ps, key=lambda k: (self.prods[k][3], k))
                if len(ps) > 1:
                    self.conflicts.append((s, a, "reduce/reduce", p, sorted(ps)))
                if p == 0:
                    act[a] = ("accept",)
                    continue
                if a in shifts:
                    sprec, slevel = self.prec.get(a, ("right", 0))
                    rprec, rlevel = self._rule_prec(p)
                    if slevel > rlevel or (slevel == rlevel and rprec == "right"):
                        act[a] = ("shift", shifts[a])
                        if not rlevel:
                            self.conflicts.append((s, a, "shift/reduce", "shift", p))
                    elif slevel == rlevel and rprec == "nonassoc":
                        act[a] = None
                    else:
                        act[a] = ("reduce", p)
                        if not slevel and not rlevel:
                            self.conflicts.append((s, a, "shift/reduce", "reduce", p))
                else:
                    act[a] = ("reduce", p)
            for a, t in shifts.items():
                if a not in act:
                    act[a] = ("shift", t)
            self.action.append(act)

    def _rule_prec(self, pi):
        lhs, rhs, pname, _l = self.prods[pi]
        if pname is not None:
            return self.prec.get(pname, ("right", 0))
        for s in reversed(rhs):
            if s not in self.nts:
                return self.prec.get(s, ("right", 0))
        return ("right", 0)

    def conflict_at(self):
        """{(state, token): "<rule> before <token>"} for the shift/reduce and reduce/reduce conflicts yacc resolved silently"""
        out = {}
        for s_, a_, kind, chosen, p_ in self.conflicts:
            pi = p_ if isinstance(p_, int) else chosen
            lhs, rhs, _pn, _l = self.prods[pi]
            out[(s_, a_)] = "%s : %s before %s" % (lhs, " ".join(rhs) or "<empty>", a_)
        return out

    def accepts(self, tokens, seen=None, at=None):
        """run the automaton on token names; PLY's default reductions (a state whose only action is one reduction reduces without
        reading the next token) do not change what is accepted.  `seen` collects the conflicts (from `at` = conflict_at()) the
        run went through"""
        stack = [0]
        toks = list(tokens) + ["$end"]
        i = 0
        steps = 0
        while True:
            steps += 1
            if steps > 100000:
                raise AnalysisError("LR simulation does not terminate")
            a = self.action[stack[-1]].get(toks[i])
            if seen is not None and at and (stack[-1], toks[i]) in at:
                seen.add(at[(stack[-1], toks[i])])
            if a is None:
                return False
            if a[0] == "accept":
                return True
            if a[0] == "shift":
                stack.append(a[1])
                i += 1
            else:
                lhs, rhs, _p, _l = self.prods[a[1]]
                if rhs:
                    del stack[-len(rhs):]
                g = self.goto.get((stack[-1], lhs))
                if g is None:
                    return False
                stack.append(g)


def sentences(productions, start, maxlen, cap=400000):
    """every sentence (tuple of token names) of at most `maxlen` tokens the productions derive from `start`; None when more than
    `cap` sentential forms would have to be kept"""
    prods = {}
    for p in productions:
        prods.setdefault(p.lhs, []).append(tuple(p.rhs))
    nts = set(prods)
    INF = 10 ** 9
    ml = {n: INF for n in nts}
    ch = True
    while ch:
        ch = False
        for n, alts in prods.items():
            for a in alts:
                v = sum(ml.get(x, 1) if x in nts else 1 for x in a)
                if v < ml[n]:
                    ml[n] = v
                    ch = True

    def minlen(form):
        return sum(ml[x] if x in nts else 1 for x in form)

    seen, out, stack = set(), set(), [(start,)]
    while stack:
        f = stack.pop()
        i = next((k for k, x in enumerate(f) if x in nts), None)
        if i is None:
            out.add(f)
            continue
        for a in prods[f[i]]:
            g = f[:i] + a + f[i + 1:]
            if g not in seen and minlen(g) <= maxlen:
                seen.add(g)
                stack.append(g)
                if len(seen) > cap:
                    return None
    return out
