"""Engine D: value-kind narrowing, exception escape and effects for the Parameter.clean methods.

Each method is explored per raw input kind; data-dependent branches and may-raise operations are choice points and all
choice sequences are enumerated.  The operation table below is closed: anything else is ANALYSIS-ERROR.
"""
import ast
import builtins

from .report import AnalysisError

RAW_KINDS = ["int", "float", "bool", "str", "list0", "list1", "tuple0", "tuple1", "dict0", "dict1", "command"]
# "number": a numbers.Number that is none of int / float / bool (numpy.float32, fractions.Fraction, decimal.Decimal): what the
# programming interface may hand to a numeric parameter; int() of it truncates, float() of it rounds
EXTRA_KINDS = {"DataTypeParameter": ["type"], "DataParameter": ["ndarray"], "NumberParameter": ["number"]}
DOC_KINDS = {
    "Parameter": None,
    "StringParameter": {"str"},
    "NumberParameter": {"int", "float", "bool", "number"},
    "BooleanParameter": {"bool"},
    "PathParameter": {"str"},
    "ResultParameter": {"command"},
    "ListParameter": {"list0", "list1"},
    "TupleParameter": {"dict0", "dict1"},
    "DataParameter": {"ndarray"},
    "DataTypeParameter": {"type"},
}
NUMERIC = {"int", "float", "bool"}
LISTS = {"list0", "list1"}
TUPLES = {"tuple0", "tuple1"}
DICTS = {"dict0", "dict1"}
EMPTY = {"list0", "tuple0", "dict0"}
UNHASHABLE = LISTS | DICTS | {"ndarray"}
MUTATORS = {"append", "extend", "pop", "update", "setdefault", "clear", "sort", "remove", "insert", "add", "discard", "popitem", "reverse", "__setitem__", "__delitem__"}


class Unsupported(AnalysisError):
    pass


class V(object):
    __slots__ = ("kinds", "ident", "tag", "derived")

    def __init__(self, kinds, ident=False, tag=None, derived=False):
        self.kinds = frozenset(kinds)
        self.ident = ident  # the raw argument object itself
        self.tag = tag
        self.derived = derived or ident  # reachable from the raw argument / program (for effect tracking)

    def __repr__(self):
        return "V(%s%s%s)" % ("|".join(sorted(self.kinds)), ",id" if self.ident else "", "," + str(self.tag) if self.tag else "")


class _Stop(Exception):
    def __init__(self, kind, payload):
        self.kind = kind  # 'return' | 'raise'
        self.payload = payload


def _src(n):
    try:
        return " ".join(ast.unparse(n).split())[:100]
    except Exception:
        return type(n).__name__


class Outcome(object):
    def __init__(self, kind, payload, notes, effects, line):
        self.kind = kind
        self.payload = payload
        self.notes = notes
        self.effects = effects
        self.line = line


class Runner(object):
    def __init__(self, idx, cls, kind, summaries=None, valid_types_are_types=True):
        self.idx = idx
        self.cls = cls  # ClassInfo of the parameter class whose clean is explored
        self.kind = kind
        self.summaries = summaries or {}
        self.outcomes = []
        self.valid_types_are_types = valid_types_are_types
        self.depth = 0

    # ---------------------------------------------------------------- exploration
    def run(self):
        fi = self.idx.find_method(self.cls, "clean")
        if fi is None:
            raise AnalysisError("%s has no clean" % self.cls.name)
        args = [a.arg for a in fi.node.args.args]
        env0 = {args[0]: V({"self"}, tag="self")}
        if len(args) > 1:
            env0[args[1]] = V({self.kind}, ident=True, tag="value")
        if len(args) > 2:
            env0[args[2]] = V({"program"}, tag="program", derived=True)
        if len(args) > 3:
            env0[args[3]] = V({"int", "none"}, tag="lineno")
        pending = [[]]
        seen = set()
        n = 0
        while pending:
            n += 1
            if n > 5000:
                raise AnalysisError("choice enumeration exceeded 5000 paths in %s.clean" % self.cls.name)
            choices = pending.pop()
            self.choices = list(choices)
            self.ci = 0
            self.newchoices = []
            self.notes = []
            self.constdicts = getattr(self, "constdicts", {})
            self.effects = []
            self.last_line = fi.node.lineno
            env = dict(env0)
            try:
                self.block(fi.node.body, env, fi, self.cls)
                out = ("return", V({"none"}))
            except _Stop as p:
                out = (p.kind, p.payload)
            key = (out[0], repr(out[1]), tuple(self.notes), tuple(self.effects))
            if key not in seen:
                seen.add(key)
                self.outcomes.append(Outcome(out[0], out[1], list(self.notes), list(self.effects), self.last_line))
            taken = self.choices + self.newchoices
            for i in range(len(choices), len(taken)):
                nopt, k = taken[i]
                for alt in range(k + 1, nopt):
                    pending.append(taken[:i] + [(nopt, alt)])
        return self.outcomes

    def choose(self, n):
        if self.ci < len(self.choices):
            c = self.choices[self.ci][1]
        else:
            c = 0
            self.newchoices.append((n, 0))
        self.ci += 1
        return c

    def may_raise(self, excs, node=None):
        c = self.choose(len(excs) + 1)
        if c > 0:
            self.raise_(excs[c - 1], node)

    def raise_(self, name, node=None):
        if node is not None:
            self.last_line = getattr(node, "lineno", self.last_line)
        raise _Stop("raise", name)

    # ---------------------------------------------------------------- statements
    def block(self, stmts, env, fi, cls):
        for s in stmts:
            self.stmt(s, env, fi, cls)

    def stmt(self, s, env, fi, cls):
        self.last_line = getattr(s, "lineno", self.last_line)
        if isinstance(s, ast.Expr):
            if isinstance(s.value, ast.Constant):
                return
            v = self.ev(s.value, env, fi, cls)
            if isinstance(s.value, ast.Call) and isinstance(s.value.func, ast.Attribute) and s.value.func.attr == "clean" and s.value.args:
                a0 = self.ev_quiet(s.value.args[0], env, fi, cls)
                if a0 is not None and a0.ident:
                    self.notes.append("discarded:%s" % _src(s.value.func))
        elif isinstance(s, ast.Assign):
            v = self.ev(s.value, env, fi, cls)
            for t in s.targets:
                self.store(t, v, env, fi, cls, s)
        elif isinstance(s, ast.AugAssign):
            v = self.ev(s.value, env, fi, cls)
            self.store(s.target, v, env, fi, cls, s)
        elif isinstance(s, ast.Return):
            raise _Stop("return", self.ev(s.value, env, fi, cls) if s.value is not None else V({"none"}))
        elif isinstance(s, ast.Raise):
            if s.exc is None:
                raise _Stop("raise", env.get("__caught__", "Exception"))
            target = s.exc.func if isinstance(s.exc, ast.Call) else s.exc
            if isinstance(s.exc, ast.Call):
                for a in s.exc.args:
                    self.ev(a, env, fi, cls)
            q = self.idx.qualname(fi.module, target, fi) or _src(target)
            raise _Stop("raise", q)
        elif isinstance(s, ast.If):
            t = self.test(s.test, env, fi, cls)
            if t is None:
                t = self.choose(2) == 0
            self.block(s.body if t else s.orelse, env, fi, cls)
        elif isinstance(s, ast.Try):
            try:
                self.block(s.body, env, fi, cls)
                self.block(s.orelse, env, fi, cls)
            except _Stop as p:
                if p.kind != "raise":
                    self._finally(s, env, fi, cls)
                    raise
                for h in s.handlers:
                    if self.handler_matches(h, p.payload, fi):
                        env2 = env
                        env2["__caught__"] = p.payload
                        if h.name:
                            env2[h.name] = V({"exc"}, tag=p.payload)
                        try:
                            self.block(h.body, env2, fi, cls)
                        finally:
                            self._finally(s, env, fi, cls)
                        return
                self._finally(s, env, fi, cls)
                raise
            self._finally(s, env, fi, cls)
        elif isinstance(s, (ast.Import, ast.ImportFrom, ast.Pass)):
            pass
        elif isinstance(s, ast.For):
            it = self.ev(s.iter, env, fi, cls)
            self.iterate(it, s.iter)
            if self.choose(2) == 0:
                self.store(s.target, self.element_of(it), env, fi, cls, s)
                self.block(s.body, env, fi, cls)
            self.block(s.orelse, env, fi, cls)
        elif isinstance(s, (ast.Global, ast.Nonlocal)):
            self.effects.append("global:%s" % ",".join(s.names))
        elif isinstance(s, ast.Delete):
            for t in s.targets:
                self.store(t, V({"none"}), env, fi, cls, s)
        elif isinstance(s, ast.With):
            for item in s.items:
                v = self.ev(item.context_expr, env, fi, cls)
                if item.optional_vars is not None:
                    self.store(item.optional_vars, v, env, fi, cls, s)
            self.block(s.body, env, fi, cls)
        elif isinstance(s, ast.Assert):
            self.test(s.test, env, fi, cls)
            self.may_raise(["builtins.AssertionError"], s)
        else:
            raise Unsupported("%s:%s statement %s is outside Engine D's vocabulary" % (fi.module.rel, s.lineno, type(s).__name__))

    def _finally(self, s, env, fi, cls):
        if s.finalbody:
            self.block(s.finalbody, env, fi, cls)

    def store(self, t, v, env, fi, cls, stmt):
        if isinstance(t, ast.Name):
            env[t.id] = v
            for k in [k for k in env if k.startswith("@in:%s:" % t.id)]:
                del env[k]
            return
        if isinstance(t, (ast.Tuple, ast.List)):
            for e in t.elts:
                self.store(e, V({"str"}) if v.tag == "strpair" else V({"any"}, derived=v.derived), env, fi, cls, stmt)
            return
        if isinstance(t, (ast.Attribute, ast.Subscript)):
            base = self.ev(t.value, env, fi, cls)
            if isinstance(t, ast.Subscript):
                self.ev(t.slice, env, fi, cls)
            if base.kinds == {"self"}:
                self.effects.append("self-store:%s" % _src(t))
            elif base.derived or base.kinds & {"program", "command"}:
                self.effects.append("store-through-argument:%s" % _src(t))
            return
        raise Unsupported("%s:%s assignment target" % (fi.module.rel, stmt.lineno))

    # ---------------------------------------------------------------- exceptions
    def exc_chain(self, name):
        short = name.split(".")[-1]
        if name.startswith("builtins.") or hasattr(builtins, short) and "." not in name:
            c = getattr(builtins, short, None)
            if isinstance(c, type) and issubclass(c, BaseException):
                return ["builtins." + k.__name__ for k in c.__mro__ if k is not object]
        for ci in self.idx.classes:
            if ci.qual == name:
                out = []
                for c in self.idx.mro(ci):
                    if hasattr(c, "qual"):
                        out.append(c.qual)
                    else:
                        q = c if "." in c else "builtins." + c
                        k = getattr(builtins, q.split(".")[-1], None)
                        if isinstance(k, type) and issubclass(k, BaseException):
                            out.extend("builtins." + x.__name__ for x in k.__mro__ if x is not object)
                        else:
                            out.append(q)
                return out
        return [name]

    def handler_matches(self, h, exc, fi):
        if h.type is None:
            return True
        ts = h.type.elts if isinstance(h.type, ast.Tuple) else [h.type]
        chain = self.exc_chain(exc)
        for t in ts:
            q = self.idx.qualname(fi.module, t, fi) or _src(t)
            if q in chain:
                return True
        return False

    # ---------------------------------------------------------------- tests (kind narrowing)
    def isinstance_kinds(self, e, fi):
        if isinstance(e, ast.BinOp) and isinstance(e.op, ast.Add):
            return self.isinstance_kinds(e.left, fi) | self.isinstance_kinds(e.right, fi)  # tuples of classes joined with +
        elts = e.elts if isinstance(e, ast.Tuple) else [e]
        out = set()
        for x in elts:
            q = self.idx.qualname(fi.module, x, fi) or _src(x)
            m = {
                "numbers.Number": NUMERIC | {"number"}, "numbers.Real": NUMERIC | {"number"}, "numbers.Integral": {"int", "bool"}, "builtins.bool": {"bool"}, "builtins.int": {"int", "bool"}, "builtins.float": {"float"},
                "six.string_types": {"str"}, "builtins.str": {"str"}, "six.text_type": {"str"}, "builtins.bytes": set(),
                "builtins.list": LISTS, "builtins.tuple": TUPLES, "builtins.dict": DICTS, "numpy.ndarray": {"ndarray"},
                "builtins.type": {"type"}, "six.integer_types": {"int", "bool"}, "numpy.generic": set(), "numpy.number": set(), "numpy.floating": set(), "numpy.integer": set(),
            }.get(q)
            if m is None:
                if q.endswith("commands.Command"):
                    m = {"command"}
                elif q.endswith("arguments.Argument") or q.endswith("arguments.ListArgument"):
                    m = {"argument"}
                elif q in ("collections.abc.Mapping", "collections.Mapping"):
                    m = DICTS
                elif q in ("collections.abc.Sequence",):
                    m = LISTS | TUPLES | {"str"}
                else:
                    raise Unsupported("isinstance against %s is outside Engine D's class table" % q)
            out |= m
        return out

    def test(self, t, env, fi, cls):
        """True / False when the kind decides it, None for a data-dependent test"""
        if isinstance(t, ast.UnaryOp) and isinstance(t.op, ast.Not):
            r = self.test(t.operand, env, fi, cls)
            return None if r is None else (not r)
        if isinstance(t, ast.BoolOp):
            isor = isinstance(t.op, ast.Or)
            unknown = False
            for x in t.values:
                r = self.test(x, env, fi, cls)
                if r is None:
                    r = self.choose(2) == 0
                if isor and r:
                    return True
                if not isor and not r:
                    return False
            return not isor
        if isinstance(t, ast.Call) and isinstance(t.func, ast.Attribute) and t.func.attr == "is_integer" and not t.args and isinstance(t.func.value, ast.Name):
            # float.is_integer() is False for inf and nan: on the true outcome the float is finite (int() cannot fail on it)
            v = self.ev(t.func.value, env, fi, cls)
            res = self.choose(2) == 0
            if res and v.kinds <= NUMERIC:
                env[t.func.value.id] = V(v.kinds, ident=v.ident, tag="finite", derived=v.derived)
            return res
        if isinstance(t, ast.Call) and isinstance(t.func, ast.Attribute) and (self.idx.qualname(fi.module, t.func, fi) or "") in ("math.isfinite", "numpy.isfinite") and len(t.args) == 1 and isinstance(t.args[0], ast.Name):
            v = self.ev(t.args[0], env, fi, cls)
            res = self.choose(2) == 0
            if res and v.kinds <= NUMERIC:
                env[t.args[0].id] = V(v.kinds, ident=v.ident, tag="finite", derived=v.derived)
            return res
        if isinstance(t, ast.Call) and isinstance(t.func, ast.Name) and t.func.id == "isinstance" and len(t.args) == 2:
            v = self.ev(t.args[0], env, fi, cls)
            k = self.isinstance_kinds(t.args[1], fi)
            if "any" in v.kinds:
                # decide here so that the tested name can be narrowed on the chosen outcome
                res = self.choose(2) == 0
                if isinstance(t.args[0], ast.Name) and k:
                    env[t.args[0].id] = V(k if res else {"any"}, derived=v.derived, tag=v.tag)
                return res
            if v.kinds <= k:
                return True
            if not (v.kinds & k):
                return False
            return None
        if isinstance(t, ast.Compare) and len(t.ops) == 1 and isinstance(t.left, ast.Call) and isinstance(t.left.func, ast.Name) and t.left.func.id == "len" and len(t.left.args) == 1 \
                and isinstance(t.comparators[0], ast.Constant) and t.comparators[0].value == 0 and isinstance(t.ops[0], (ast.Eq, ast.NotEq, ast.Gt)):
            # the raw kinds tell empty from non-empty containers apart
            v = self.ev(t.left.args[0], env, fi, cls)
            if v.kinds and v.kinds <= EMPTY:
                return isinstance(t.ops[0], ast.Eq)
            if v.kinds and v.kinds <= (LISTS | TUPLES | DICTS) - EMPTY:
                return not isinstance(t.ops[0], ast.Eq)
        if isinstance(t, ast.Compare) and len(t.ops) == 1:
            l = self.ev(t.left, env, fi, cls)
            r = self.ev(t.comparators[0], env, fi, cls)
            op = t.ops[0]
            if isinstance(op, (ast.Eq, ast.NotEq)):
                res = None
                if isinstance(t.comparators[0], (ast.List, ast.Tuple, ast.Dict)) and not getattr(t.comparators[0], "elts", getattr(t.comparators[0], "keys", [1])):
                    # value == [] : true exactly for the empty container of that type
                    want = {"List": "list0", "Tuple": "tuple0", "Dict": "dict0"}[type(t.comparators[0]).__name__]
                    if len(l.kinds) == 1 and "any" not in l.kinds:
                        if "ndarray" in l.kinds:
                            self.notes.append("array-comparison")
                            return None
                        res = l.kinds == {want}
                if res is None:
                    return None
                return res if isinstance(op, ast.Eq) else not res
            if isinstance(op, (ast.Is, ast.IsNot)):
                if isinstance(t.comparators[0], ast.Constant) and t.comparators[0].value is None:
                    key0 = "@" + _src(t.left)
                    if key0 in env:
                        l = env[key0]  # decided earlier on this path
                    elif l.kinds == {"obj"} and (l.tag or "").startswith("self.") and isinstance(t.left, ast.Attribute):
                        # a configuration attribute of the parameter object (output_type, is_fuzzy, value_type ...): set or not,
                        # depending on how the parameter was declared - both are explored
                        l = V({"obj", "none"}, derived=l.derived, tag=l.tag)
                    if "none" not in l.kinds:
                        return isinstance(op, ast.IsNot)
                    if l.kinds == {"none"}:
                        return isinstance(op, ast.Is)
                    isnone = self.choose(2) == 0
                    key = "@" + _src(t.left)
                    env[key] = V({"none"} if isnone else (l.kinds - {"none"}), derived=l.derived, tag=l.tag)
                    if isinstance(t.left, ast.Name):
                        env[t.left.id] = env[key]
                    return isnone if isinstance(op, ast.Is) else not isnone
                return None
            if isinstance(op, (ast.In, ast.NotIn)) and r.tag and r.tag.startswith("constdict:") and isinstance(t.left, ast.Name):
                if l.kinds & UNHASHABLE:
                    if "any" in l.kinds:
                        self.may_raise(["builtins.TypeError"], t)
                    else:
                        self.raise_("builtins.TypeError", t)
                isin = self.choose(2) == 0
                if isin:
                    env["@in:%s:%s" % (t.left.id, r.tag)] = V({"bool"})
                return isin if isinstance(op, ast.In) else not isin
            if isinstance(op, (ast.In, ast.NotIn)):
                res = self.membership(l, r, t)
                if res is None:
                    return None
                return res if isinstance(op, ast.In) else not res
            return None
        v = self.ev(t, env, fi, cls)
        if isinstance(t, (ast.Attribute, ast.Name)) and "none" in v.kinds and len(v.kinds) > 1 and "any" not in v.kinds:
            # `if x:` on a value that may be None: on the true outcome it is not None (a false outcome says nothing: None, "" , 0)
            res = self.choose(2) == 0
            if res:
                nv = V(v.kinds - {"none"}, derived=v.derived, tag=v.tag)
                env["@" + _src(t)] = nv
                if isinstance(t, ast.Name):
                    env[t.id] = nv
            return res
        return self.truth(v)

    def truth(self, v):
        if "any" in v.kinds:
            return None
        if v.kinds <= EMPTY | {"none"}:
            return False
        if v.kinds <= {"list1", "tuple1", "dict1", "command", "type", "program", "self", "obj"}:
            return True
        if "ndarray" in v.kinds:
            self.may_raise(["builtins.ValueError"])
        return None

    def membership(self, l, r, node):
        """`l in r`"""
        if r.tag == "valid_types.values":
            # refinement (ii): values of valid_types are type objects
            if self.valid_types_are_types and not (l.kinds & {"type", "any"}):
                if l.kinds & {"ndarray"}:
                    self.may_raise(["builtins.ValueError"], node)
                return False
            return None
        if r.tag and r.tag.endswith(".keys") or r.kinds & DICTS or r.tag == "dictattr":
            if l.kinds & UNHASHABLE:
                self.raise_("builtins.TypeError", node)
            return None
        return None

    # ---------------------------------------------------------------- expressions
    def ev_quiet(self, e, env, fi, cls):
        try:
            return self.ev(e, env, fi, cls)
        except _Stop:
            return None

    def iterate(self, it, node):
        if it.kinds & {"int", "float", "bool", "command", "type", "none"} and "any" not in it.kinds:
            self.raise_("builtins.TypeError", node)

    def element_of(self, it):
        if it.tag == "valid_types":
            return V({"str"})  # the declared table maps type names (text) to types: iterating it yields the names
        if it.tag == "strpair":
            return V({"str"})  # os.path.split / splitext of text: a pair of texts
        return V({"any"}, derived=it.derived, tag="element")

    def ev(self, e, env, fi, cls):
        if isinstance(e, ast.Constant):
            v = e.value
            k = "none" if v is None else "bool" if isinstance(v, bool) else "int" if isinstance(v, int) else "float" if isinstance(v, float) else "str" if isinstance(v, str) else "obj"
            return V({k})
        if isinstance(e, ast.Name):
            if e.id in env:
                return env[e.id]
            r = self.idx.resolve(fi.module, e, fi)
            if r is not None and r[0] == "const" and self.idx._single_assignment(r[1], r[2]):
                # a module-level lookup table / constant: its folded value
                try:
                    c = self.idx.const(r[1], r[1].consts[r[2]])
                except KeyError:
                    c = None
                if isinstance(c, dict):
                    self.constdicts["%s.%s" % (r[1].name, r[2])] = c
                    return V({"dict1" if c else "dict0"}, tag="constdict:%s.%s" % (r[1].name, r[2]))
                if isinstance(c, (list, tuple)):
                    k = "list" if isinstance(c, list) else "tuple"
                    return V({k + ("1" if c else "0")}, tag="constseq")
                if isinstance(c, bool):
                    return V({"bool"})
                if isinstance(c, (int, float, str)):
                    return V({type(c).__name__})
            return V({"global"}, tag=self.idx.qualname(fi.module, e, fi) or e.id)
        if isinstance(e, ast.Attribute):
            key = "@" + _src(e)
            if key in env:
                return env[key]
            b = self.ev(e.value, env, fi, cls)
            return self.attr(b, e, fi)
        if isinstance(e, ast.Call):
            return self.call(e, env, fi, cls)
        if isinstance(e, ast.Compare):
            r = self.test(e, env, fi, cls)
            return V({"bool"})
        if isinstance(e, (ast.BoolOp,)):
            vs = [self.ev(x, env, fi, cls) for x in e.values]
            ks = set()
            for v in vs:
                ks |= v.kinds
            return V(ks, derived=any(v.derived for v in vs))
        if isinstance(e, ast.UnaryOp):
            v = self.ev(e.operand, env, fi, cls)
            if isinstance(e.op, ast.Not):
                self.truth(v)
                return V({"bool"})
            if not v.kinds <= NUMERIC | {"any"}:
                self.raise_("builtins.TypeError", e)
            return V(v.kinds)
        if isinstance(e, ast.BinOp):
            a = self.ev(e.left, env, fi, cls)
            b = self.ev(e.right, env, fi, cls)
            if isinstance(e.op, ast.Mod) and a.kinds == {"str"}:
                return V({"str"})
            if a.kinds <= NUMERIC and b.kinds <= NUMERIC:
                return V({"int", "float"})
            if a.kinds == b.kinds == {"str"} and isinstance(e.op, ast.Add):
                return V({"str"})
            if "any" in a.kinds or "any" in b.kinds:
                self.may_raise(["builtins.TypeError"], e)
                return V({"any"})
            self.raise_("builtins.TypeError", e)
        if isinstance(e, ast.IfExp):
            t = self.test(e.test, env, fi, cls)
            if t is None:
                t = self.choose(2) == 0
            return self.ev(e.body if t else e.orelse, env, fi, cls)
        if isinstance(e, ast.Subscript):
            b = self.ev(e.value, env, fi, cls)
            i = self.ev(e.slice, env, fi, cls)
            if b.tag and b.tag.startswith("constdict:"):
                c = self.constdicts.get(b.tag.split(":", 1)[1], {})
                vk = set()
                for x in c.values():
                    vk.add("none" if x is None else "bool" if isinstance(x, bool) else "int" if isinstance(x, int) else "float" if isinstance(x, float) else "str" if isinstance(x, str) else "any")
                if i.kinds & UNHASHABLE and "any" not in i.kinds:
                    self.raise_("builtins.TypeError", e)
                checked = isinstance(e.slice, ast.Name) and ("@in:%s:%s" % (e.slice.id, b.tag)) in env
                if not checked:
                    self.may_raise(["builtins.KeyError"] + (["builtins.TypeError"] if "any" in i.kinds else []), e)
                return V(vk or {"any"})
            if (b.kinds <= DICTS or b.kinds == {"obj"} or "any" in b.kinds) and self.present_key(e):
                # the value is what this function stores under that key (a cache filled just before, or by an earlier call)
                stored = self.__dict__.get("_present_stores", {}).get(id(e))
                if stored is not None:
                    if i.kinds & UNHASHABLE and "any" not in i.kinds:
                        self.raise_("builtins.TypeError", e)
                    return self.ev(stored, env, fi, cls)
            return self.subscript(b, i, e)
        if isinstance(e, (ast.ListComp, ast.GeneratorExp, ast.SetComp)):
            g = e.generators[0]
            it = self.ev(g.iter, env, fi, cls)
            self.iterate(it, g.iter)
            env2 = dict(env)
            empty = it.kinds <= EMPTY
            if not empty:
                self.store(g.target, self.element_of(it), env2, fi, cls, e)
                for c in g.ifs:
                    self.test(c, env2, fi, cls)
                self.ev(e.elt, env2, fi, cls)
            if it.ident and isinstance(e.elt, ast.Name):
                pass
            k = {"list0"} if empty else ({"list1"} if it.kinds <= {"list1", "tuple1", "dict1"} else {"list0", "list1"})
            if isinstance(e, ast.GeneratorExp):
                k = {"iter"}
            return V(k, tag="comprehension")
        if isinstance(e, ast.DictComp):
            g = e.generators[0]
            it = self.ev(g.iter, env, fi, cls)
            self.iterate(it, g.iter)
            env2 = dict(env)
            if it.tag == "valid_types.items" and isinstance(g.target, ast.Tuple) and len(g.target.elts) == 2 and all(isinstance(t_, ast.Name) for t_ in g.target.elts) and not g.ifs:
                # {f(name): data_type for name, data_type in self.valid_types.items()}: the declared table under re-spelled names -
                # still text keys and type values (a lookup in it behaves like a lookup in the table)
                env2[g.target.elts[0].id] = V({"str"})
                env2[g.target.elts[1].id] = V({"type"})
                kv = self.ev(e.key, env2, fi, cls)
                vv = self.ev(e.value, env2, fi, cls)
                if kv.kinds <= {"str"} and isinstance(e.value, ast.Name) and e.value.id == g.target.elts[1].id:
                    return V({"dict1"}, tag="valid_types")
                return V({"dict1"})
            empty = it.kinds <= EMPTY or it.tag == "items-of-empty"
            if not empty:
                self.store(g.target, self.element_of(it), env2, fi, cls, e)
                self.ev(e.key, env2, fi, cls)
                self.ev(e.value, env2, fi, cls)
            return V({"dict0"} if empty else {"dict0", "dict1"} if "any" in it.kinds else {"dict1"}, tag="equal-copy" if it.tag in ("items", "items-of-empty") else None)
        if isinstance(e, ast.Dict):
            for k, v in zip(e.keys, e.values):
                if k is not None:
                    self.ev(k, env, fi, cls)
                self.ev(v, env, fi, cls)
            return V({"dict1" if e.keys else "dict0"})
        if isinstance(e, (ast.List, ast.Tuple, ast.Set)):
            for x in e.elts:
                self.ev(x, env, fi, cls)
            base = "list" if isinstance(e, ast.List) else "tuple"
            return V({base + ("1" if e.elts else "0")})
        if isinstance(e, ast.JoinedStr):
            return V({"str"})
        if isinstance(e, ast.Lambda):
            return V({"obj"})
        if isinstance(e, ast.Starred):
            return self.ev(e.value, env, fi, cls)
        raise Unsupported("%s:%s expression %s is outside Engine D's vocabulary" % (fi.module.rel, getattr(e, "lineno", "?"), type(e).__name__))

    def attr(self, b, e, fi):
        a = e.attr
        if b.kinds == {"self"}:
            if a == "valid_types":
                return V({"dict1"}, tag="valid_types")
            return V({"obj"}, tag="self." + a)
        if b.kinds == {"program"}:
            if a == "commands":
                return V({"dict0", "dict1"}, tag="program.commands", derived=True)
            return V({"str", "none"} if a == "working_dir" else {"obj"}, tag="program." + a, derived=True)
        if b.kinds == {"global"}:
            return V({"global"}, tag=(b.tag or "") + "." + a)
        if b.kinds == {"obj"} or b.kinds == {"exc"}:
            return V({"obj"}, tag=(b.tag or "") + "." + a, derived=b.derived)
        if b.tag == "valid_types" and a in ("values", "keys", "items"):
            return V({"method"}, tag="valid_types." + a)
        # attribute of the raw value
        ok = {
            "lower": {"str"}, "upper": {"str"}, "strip": {"str"}, "startswith": {"str"}, "endswith": {"str"}, "split": {"str"}, "format": {"str"}, "encode": {"str"}, "isdigit": {"str"},
            "is_integer": {"float", "int", "bool"}, "real": NUMERIC, "imag": NUMERIC, "bit_length": {"int", "bool"}, "as_integer_ratio": NUMERIC,
            "append": LISTS, "extend": LISTS, "insert": LISTS, "sort": LISTS, "reverse": LISTS, "index": LISTS | TUPLES | {"str"}, "count": LISTS | TUPLES | {"str"},
            "join": {"str"}, "replace": {"str"}, "lstrip": {"str"}, "rstrip": {"str"}, "title": {"str"}, "capitalize": {"str"}, "casefold": {"str"},
            "items": DICTS, "keys": DICTS, "values": DICTS, "get": DICTS,
            "result": {"command"}, "result_name": {"command"}, "is_finished": {"command"}, "is_running": {"command"}, "is_fuzzy": {"command"}, "output": {"command"}, "name": {"command", "argument"},
            "value": {"argument"}, "lineno": {"command", "argument"}, "__class__": None, "dtype": {"ndarray"}, "shape": {"ndarray"},
        }.get(a, "?")
        if ok == "?":
            raise Unsupported("%s:%s attribute .%s on a raw value is outside Engine D's vocabulary" % (fi.module.rel, e.lineno, a))
        if "any" in b.kinds:
            self.may_raise(["builtins.AttributeError"], e)
        elif ok is not None and not b.kinds <= ok:
            self.raise_("builtins.AttributeError", e)
        if a == "result":
            self.notes.append("touch-result")
            return V({"ndarray", "any"}, tag="result", derived=True)
        if a in ("append", "extend", "insert", "sort", "reverse", "index", "count"):
            return V({"method"}, tag=a, derived=b.derived)
        if a in ("is_integer", "bit_length", "as_integer_ratio"):
            return V({"method"}, tag=a, derived=b.derived)
        if a in ("real", "imag"):
            return V(b.kinds)
        if a in ("items", "keys", "values", "get", "lower", "upper", "strip", "startswith", "endswith", "split", "format", "encode", "isdigit", "join", "replace", "lstrip", "rstrip", "title", "capitalize", "casefold"):
            return V({"method"}, tag=("items-of-empty" if b.kinds <= EMPTY and a == "items" else a), derived=b.derived)
        if a == "is_finished":
            return V({"bool"}, tag="is_finished")
        if a == "output":
            return V({"obj", "none"}, tag="output")
        if a == "__class__":
            return V({"type"})
        if a == "value":
            return V({"any"}, derived=True)
        return V({"obj", "str"}, derived=b.derived)

    def present_key(self, e):
        """`X[k]` read right after `if k not in X: X[k] = ...` (or inside `if k in X:`): the key is there, no KeyError"""
        memo = self.__dict__.setdefault("_present_memo", {})
        fn = None
        for f_ in self.idx.funcs:
            node = getattr(f_, "node", None)
            if node is not None and node.lineno <= getattr(e, "lineno", -1) <= (node.end_lineno or 0) and any(e is x for x in ast.walk(node)):
                fn = node
                break
        if fn is None:
            return False
        if id(fn) not in memo:
            safe = set()

            def scan(stmts):
                for k, st in enumerate(stmts):
                    for f2 in ("body", "orelse", "finalbody"):
                        v = getattr(st, f2, None)
                        if isinstance(v, list) and v and isinstance(v[0], ast.stmt):
                            scan(v)
                    for h in getattr(st, "handlers", []) or []:
                        scan(h.body)
                    if isinstance(st, ast.If) and isinstance(st.test, ast.Compare) and len(st.test.ops) == 1 and isinstance(st.test.ops[0], (ast.In, ast.NotIn)):
                        key, base = ast.dump(st.test.left), ast.dump(st.test.comparators[0])
                        if isinstance(st.test.ops[0], ast.NotIn):
                            fill_stmts = [a_ for b_ in st.body for a_ in ast.walk(b_) if isinstance(a_, ast.Assign) and len(a_.targets) == 1 and isinstance(a_.targets[0], ast.Subscript) and ast.dump(a_.targets[0].value) == base and ast.dump(a_.targets[0].slice) == key]
                            fills = bool(fill_stmts)
                            if fills and not st.orelse:
                                for later in stmts[k + 1:]:
                                    for x in ast.walk(later):
                                        if isinstance(x, ast.Subscript) and isinstance(x.ctx, ast.Load) and ast.dump(x.value) == base and ast.dump(x.slice) == key:
                                            safe.add(id(x))
                                            if len(fill_stmts) == 1:
                                                self.__dict__.setdefault("_present_stores", {})[id(x)] = fill_stmts[0].value
                        else:
                            for b_ in st.body:
                                for x in ast.walk(b_):
                                    if isinstance(x, ast.Subscript) and isinstance(x.ctx, ast.Load) and ast.dump(x.value) == base and ast.dump(x.slice) == key:
                                        safe.add(id(x))
            scan(fn.body)
            memo[id(fn)] = safe
        return id(e) in memo[id(fn)]

    def subscript(self, b, i, e):
        if (b.kinds <= DICTS or b.kinds == {"obj"} or "any" in b.kinds) and self.present_key(e):
            if i.kinds & UNHASHABLE and "any" not in i.kinds:
                self.raise_("builtins.TypeError", e)
            return V({"any"}, derived=b.derived)
        if b.tag in ("valid_types",):
            if i.kinds & UNHASHABLE and "any" not in i.kinds:
                self.raise_("builtins.TypeError", e)
            if i.kinds <= {"str"}:
                self.may_raise(["builtins.KeyError"], e)
                return V({"type"})
            if "any" in i.kinds:
                self.may_raise(["builtins.KeyError", "builtins.TypeError"], e)
                return V({"type"})
            self.raise_("builtins.KeyError", e)
        if b.tag == "program.commands":
            if i.kinds & UNHASHABLE and "any" not in i.kinds:
                self.raise_("builtins.TypeError", e)
            self.may_raise(["builtins.KeyError"], e)
            return V({"command"}, derived=True)
        if b.kinds <= LISTS | TUPLES | {"str"}:
            self.may_raise(["builtins.IndexError"], e)
            return V({"any"}, derived=b.derived)
        if b.kinds <= DICTS or b.kinds == {"obj"}:
            if i.kinds & UNHASHABLE and "any" not in i.kinds:
                self.raise_("builtins.TypeError", e)
            self.may_raise(["builtins.KeyError"], e)
            return V({"any"}, derived=b.derived)
        if "any" in b.kinds:
            self.may_raise(["builtins.TypeError", "builtins.KeyError", "builtins.IndexError"], e)
            return V({"any"}, derived=b.derived)
        self.raise_("builtins.TypeError", e)

    # ---------------------------------------------------------------- calls
    def call(self, e, env, fi, cls):
        f = e.func
        # super(K, self).clean(...)
        if isinstance(f, ast.Attribute) and isinstance(f.value, ast.Call) and isinstance(f.value.func, ast.Name) and f.value.func.id == "super":
            A = [self.ev(a, env, fi, cls) for a in e.args]
            K = {k.arg: self.ev(k.value, env, fi, cls) for k in e.keywords if k.arg}
            after = fi.cls
            if f.value.args:
                r = self.idx.resolve(fi.module, f.value.args[0], fi)
                if r and r[0] == "class":
                    after = r[1]
            m = self.idx.find_method(self.cls, f.attr, after=after)
            if m is None:
                if f.attr == "__init__":
                    return V({"none"})
                self.raise_("builtins.AttributeError", e)
            return self.inline(m, A, K, e)
        A = [self.ev(a, env, fi, cls) for a in e.args]
        K = {k.arg: self.ev(k.value, env, fi, cls) for k in e.keywords if k.arg}
        a0 = A[0] if A else None
        if isinstance(f, ast.Attribute):
            recv = self.ev(f.value, env, fi, cls)
            name = f.attr
            if name == "clean" and recv.kinds == {"obj"} and (recv.tag or "").startswith("self."):
                # delegation to a declared element / output parameter: any Parameter.clean
                return self.delegate(recv.tag, A, e)
            if name == "accepts" and recv.kinds == {"obj"}:
                return V({"bool"})
            if recv.kinds == {"method"}:
                pass
            if recv.kinds == {"global"}:
                q = recv.tag + "." + name if recv.tag else name
                return self.external(q, A, K, e)
            if recv.kinds == {"self"}:
                m = self.idx.find_method(self.cls, name)
                if m is not None:
                    return self.inline(m, A, K, e)
            if name in MUTATORS and (recv.derived or recv.kinds & {"program"}):
                self.effects.append("mutating-call:%s" % _src(e.func))
            if name in ("append", "extend", "insert") and isinstance(f.value, ast.Name) and recv.kinds <= LISTS and not recv.derived:
                env[f.value.id] = V({"list1"} if name == "append" or name == "insert" else {"list0", "list1"}, tag=recv.tag)
            if recv.tag == "valid_types" or recv.kinds == {"method"} or True:
                mv = self.attr(recv, f, fi) if not (recv.kinds <= {"self", "global"}) else V({"method"}, tag=name)
                return self.method_call(recv, name, mv, A, e)
        q = self.idx.qualname(fi.module, f, fi)
        if isinstance(f, ast.Name) and f.id in env:
            return V({"any"})
        if q is None:
            raise Unsupported("%s:%s call of unresolved `%s`" % (fi.module.rel, e.lineno, _src(f)))
        r = self.idx.resolve(fi.module, f, fi)
        if r and r[0] == "class":
            return V({"exc"} if self.idx.is_subclass(r[1], "Exception") or self.idx.is_subclass(r[1], "builtins.Exception") else {"obj"}, tag=r[1].qual)
        if r and r[0] == "func":
            return self.inline(r[1], A, K, e)
        return self.external(q, A, K, e)

    def method_call(self, recv, name, mv, A, e):
        if name in ("lower", "upper", "strip", "format", "join", "replace", "lstrip", "rstrip", "title", "capitalize", "casefold"):
            return V({"str"})
        if name in ("startswith", "endswith", "isdigit", "is_integer"):
            return V({"bool"})
        if name in ("bit_length",):
            return V({"int"})
        if name == "split":
            return V({"list1"})
        if name == "items" and recv.tag == "valid_types":
            return V({"iter"}, tag="valid_types.items")
        if name == "items":
            return V({"iter"}, tag="items-of-empty" if (mv.tag == "items-of-empty") else "items", derived=recv.derived)
        if name in ("keys", "values"):
            if recv.tag == "valid_types":
                return V({"iter"}, tag="valid_types." + name)
            return V({"iter"}, tag=name, derived=recv.derived)
        if name == "get":
            if A and A[0].kinds & UNHASHABLE and "any" not in A[0].kinds:
                self.raise_("builtins.TypeError", e)
            return V({"any", "none"}, derived=recv.derived)
        if name in MUTATORS:
            return V({"none"})
        if name in ("index", "count"):
            return V({"int"})
        if name == "encode":
            return V({"bytes"})
        if name == "decode":
            self.may_raise(["builtins.UnicodeDecodeError"], e)
            return V({"str"})
        return V({"any"})

    def external(self, q, A, K, e):
        a0 = A[0] if A else None
        short = q.replace("builtins.", "")
        if short in ("int", "float"):
            k = a0.kinds if a0 is not None else frozenset()
            if a0 is None:
                return V({short})
            prov = "conv:%s:%s" % (short, "raw" if a0.ident else "derived")
            if k == {"number"}:
                # int(Fraction(3, 4)) is 0, float(Decimal("0.1")) is a rounded binary float: a conversion, not the value itself
                self.may_raise(["builtins.OverflowError", "builtins.ValueError"], e)
                return V({short}, tag=prov)
            if k <= NUMERIC:
                if short == "int" and "float" in k and a0.tag != "finite":
                    # a float can be inf or nan (`1e999` lexes as a FLOAT and is inf; float("nan") from text): int() of those raises
                    self.may_raise(["builtins.OverflowError", "builtins.ValueError"], e)
                return V({short}, tag=prov)
            if k == {"str"}:
                c = self.choose(2)
                if c > 0:
                    self.notes.append("%s-failed" % short)
                    self.raise_("builtins.ValueError", e)
                return V({short}, tag=prov)
            if "any" in k:
                self.may_raise(["builtins.ValueError", "builtins.TypeError"], e)
                return V({short})
            if k == {"ndarray"}:
                self.may_raise(["builtins.TypeError"], e)
                return V({short})
            self.raise_("builtins.TypeError", e)
        if short == "bool":
            if a0 is not None and "ndarray" in a0.kinds:
                self.may_raise(["builtins.ValueError"], e)
            return V({"bool"})
        if short in ("str", "repr") or q in ("six.text_type", "six.u"):
            return V({"str"}, ident=bool(a0 is not None and a0.ident and a0.kinds == {"str"}))
        if short in ("isinstance", "issubclass", "hasattr", "callable"):
            return V({"bool"})
        if short == "getattr":
            if len(A) >= 3:
                return V({"any"})
            self.may_raise(["builtins.AttributeError"], e)
            return V({"any"})
        if short == "len":
            if a0 is not None and a0.kinds & (NUMERIC | {"command", "type", "none"}) and "any" not in a0.kinds:
                self.raise_("builtins.TypeError", e)
            return V({"int"})
        if short in ("list", "tuple", "set", "dict", "sorted", "enumerate", "zip", "iter"):
            if a0 is not None:
                self.iterate(a0, e)
                if short == "dict" and a0.kinds & (LISTS | TUPLES | {"str"}):
                    self.may_raise(["builtins.ValueError", "builtins.TypeError"], e)
            base = {"list": "list", "tuple": "tuple", "dict": "dict"}.get(short)
            if base:
                empty = a0 is None or a0.kinds <= EMPTY
                return V({base + "0"} if empty else {base + "0", base + "1"}, tag="equal-copy" if a0 is not None and a0.ident else None)
            return V({"iter"})
        if short in ("any", "all", "print", "id", "type", "hash", "abs", "min", "max", "sum", "round", "next"):
            if short == "print":
                self.effects.append("print")
            if short == "next":
                self.may_raise(["builtins.StopIteration"], e)
            if short == "hash" and a0 is not None and a0.kinds & UNHASHABLE:
                self.raise_("builtins.TypeError", e)
            return V({"any"})
        if short == "open":
            mode = A[1] if len(A) > 1 else K.get("mode")
            self.effects.append("open")
            self.may_raise(["builtins.OSError"], e)
            return V({"obj"})
        if q in ("os.path.isabs", "os.path.exists", "os.path.isfile", "os.path.isdir", "os.path.abspath", "os.path.normpath", "os.path.expanduser", "os.path.dirname", "os.path.basename", "os.fspath"):
            if a0 is not None and not a0.kinds <= {"str", "bytes"}:
                if q == "os.path.exists" and a0.kinds <= {"int", "bool"}:
                    return V({"bool"})
                if "any" in a0.kinds:
                    self.may_raise(["builtins.TypeError"], e)
                else:
                    self.raise_("builtins.TypeError", e)
            return V({"bool"} if q.split(".")[-1].startswith(("is", "exists")) else {"str"})
        if q in ("os.path.realpath", "os.path.getsize", "os.path.getmtime", "os.path.samefile", "os.stat", "os.lstat", "os.listdir", "os.path.islink", "os.readlink"):
            # these consult the file system with the text as given: a NUL character in it is a ValueError
            # ("embedded null byte"), unlike os.path.exists / isfile / isdir, which swallow it
            if a0 is not None and not a0.kinds <= {"str", "bytes"}:
                if "any" in a0.kinds:
                    self.may_raise(["builtins.TypeError"], e)
                else:
                    self.raise_("builtins.TypeError", e)
            excs = ["builtins.ValueError"] + ([] if q in ("os.path.realpath", "os.path.islink") else ["builtins.OSError"])
            self.may_raise(excs, e)
            return V({"str"} if q in ("os.path.realpath", "os.readlink") else {"any"})
        if q in ("os.path.split", "os.path.splitext", "os.path.splitdrive"):
            if a0 is not None and not a0.kinds <= {"str", "bytes"}:
                if "any" in a0.kinds:
                    self.may_raise(["builtins.TypeError"], e)
                else:
                    self.raise_("builtins.TypeError", e)
            return V({"tuple1"}, tag="strpair")
        if q == "os.path.join":
            for x in A:
                if not x.kinds <= {"str", "bytes"}:
                    if "any" in x.kinds or "none" in x.kinds and len(x.kinds) > 1:
                        self.may_raise(["builtins.TypeError"], e)
                    else:
                        self.raise_("builtins.TypeError", e)
            return V({"str"}, tag="os.path.join")
        if q.startswith("os.") and q.split(".")[-1] in ("remove", "unlink", "rename", "makedirs", "mkdir", "rmdir", "replace", "chdir"):
            self.effects.append("os-mutation:%s" % q)
            return V({"none"})
        if q in ("numpy.issubdtype", "numpy.isscalar"):
            return V({"bool"})
        if q in ("numpy.asarray", "numpy.array", "numpy.ascontiguousarray", "numpy.asanyarray", "numpy.ma.asarray", "numpy.ma.asanyarray", "numpy.ma.array", "numpy.atleast_1d"):
            # a data value is in general a MaskedArray: only asanyarray / the numpy.ma forms (without copy) hand a masked array back
            # as the object it is; asarray() / array() return a plain ndarray - another object, the mask gone
            same = q in ("numpy.asanyarray", "numpy.ma.asarray", "numpy.ma.asanyarray") and a0 is not None and a0.kinds == {"ndarray"}
            return V({"ndarray"}, ident=bool(same and a0.ident), tag=None if same else "converted-array", derived=not same)
        raise Unsupported("%s call of %s is outside Engine D's operation table" % (getattr(e, "lineno", "?"), q))

    def inline(self, m, A, K, e):
        if self.depth > 4:
            return V({"any"})
        args = [a.arg for a in m.node.args.args]
        env = {}
        pos = args
        if m.cls is not None and m.kind != "staticmethod":
            env[args[0]] = V({"self"}, tag="self")
            pos = args[1:]
        for i, p in enumerate(pos):
            if i < len(A):
                env[p] = A[i]
        for k, v in K.items():
            env[k] = v
        d = m.node.args.defaults
        for i, p in enumerate(pos):
            if p not in env:
                env[p] = V({"none", "any"})
        self.depth += 1
        try:
            try:
                self.block(m.node.body, env, m, m.cls)
            except _Stop as p:
                if p.kind == "return":
                    return p.payload
                raise
        finally:
            self.depth -= 1
        return V({"none"})

    def delegate(self, tag, A, e):
        """self.value_type.clean(x) / self.output_type.clean(x): any parameter's clean, through its summary"""
        esc = set()
        for name, summ in self.summaries.items():
            for kind, s in summ.items():
                esc |= s["raises"]
        excs = sorted(esc)
        self.notes.append("delegates:%s" % tag)
        if excs:
            self.may_raise(excs, e)
        return V({"any"}, tag="delegated")


def parameter_classes(idx):
    base = idx.cls("mpilot.params", "Parameter")
    return [c for c in idx.classes if base in idx.mro(c) and c.module.name == "mpilot.params"]


def valid_types_are_types(idx):
    """refinement (ii): every valid_types value in the constructor default and in every command declaration is a type object"""
    from . import tables
    from .index import TypeRef

    ok = True
    seen = 0
    for d in tables.command_table(idx):
        for p in d.inputs.values():
            stack = [p]
            while stack:
                x = stack.pop()
                for k, v in x.kw.items():
                    if isinstance(v, tables.ParamTree):
                        stack.append(v)
                    if k == "valid_types":
                        seen += 1
                        if not (isinstance(v, dict) and all(isinstance(t, TypeRef) for t in v.values())):
                            ok = False
    return ok, seen


def summarize(idx):
    """{class name: {kind: {'returns': set(kinds), 'ident': bool, 'raises': set(qualnames), 'notes': set, 'effects': set, 'outcomes': [...]}}}"""
    vt, _ = valid_types_are_types(idx)
    summaries = {}
    for rnd in range(2):
        new = {}
        for ci in parameter_classes(idx):
            per = {}
            kinds = RAW_KINDS + EXTRA_KINDS.get(ci.name, [])
            for k in kinds:
                r = Runner(idx, ci, k, summaries=summaries, valid_types_are_types=vt)
                outs = r.run()
                rec = {"returns": set(), "ident": False, "equal_copy": False, "raises": set(), "notes": set(), "effects": set(), "outcomes": outs, "raise_lines": {}}
                for o in outs:
                    rec["notes"] |= set(o.notes)
                    rec["effects"] |= set(o.effects)
                    if o.kind == "return":
                        rec["returns"] |= o.payload.kinds
                        rec["ident"] |= o.payload.ident
                        rec["equal_copy"] |= o.payload.tag in ("equal-copy",)
                    else:
                        rec["raises"].add(o.payload)
                        rec["raise_lines"].setdefault(o.payload, o.line)
                per[k] = rec
            new[ci.name] = per
        if rnd == 0:
            own = new
        summaries = new
    for cname, per in summaries.items():
        for k, rec in per.items():
            rec["own_raises"] = own[cname][k]["raises"]
    return summaries
