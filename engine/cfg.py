"""Engine B: event-level control-flow graph for one function, dominance, reachability, path enumeration,
generic forward dataflow (typestate, reaching definitions).

Nodes are *events* in evaluation order: call, load (attribute read), sub (subscript read), store, aug, test, iter,
return, raise, stmt, handler, pad (exception landing pad).  Two exits: normal (`exit`) and exceptional (`raise_exit`).
"""
import ast

from .report import AnalysisError

NORETURN = {"six.raise_from", "sys.exit", "os._exit", "os.abort"}
CATCH_ALL = {"builtins.Exception", "builtins.BaseException"}


class Node(object):
    __slots__ = ("id", "kind", "ast", "stmt", "line", "succ", "pred", "meta")

    def __init__(self, id, kind, node=None, stmt=None, meta=None):
        self.id = id
        self.kind = kind
        self.ast = node
        self.stmt = stmt
        self.line = getattr(node, "lineno", None) or getattr(stmt, "lineno", None)
        self.succ = []
        self.pred = []
        self.meta = meta or {}

    def text(self):
        if self.ast is None:
            return self.kind
        try:
            s = ast.unparse(self.ast)
        except Exception:
            s = type(self.ast).__name__
        s = " ".join(s.split())
        return s if len(s) <= 90 else s[:87] + "..."

    def __repr__(self):
        return "<%d %s L%s %s>" % (self.id, self.kind, self.line, self.text()[:50])


class CFG(object):
    def __init__(self, fn_node, idx=None, mod=None, func=None, fold=None, noreturn=NORETURN):
        """fold(test_expr) -> True/False/None lets the caller fold configuration constants."""
        self.fn = fn_node
        self.idx = idx
        self.mod = mod
        self.func = func
        self.fold = fold
        self.noreturn = set(noreturn)
        self.nodes = []
        self.lambdas = []
        self._ctx = []  # exception / finally / loop contexts
        self._stmt = None
        self._comp_depth = 0
        self.entry = self._new("entry")
        self.exit = self._new("exit")
        self.raise_exit = self._new("raise_exit")
        out = self._block(fn_node.body, [(self.entry, "next")])
        self._connect(out, self.exit)
        self._dom = None
        self._pdom = {}

    # ------------------------------------------------------------------ construction helpers
    def _new(self, kind, node=None, meta=None):
        n = Node(len(self.nodes), kind, node, self._stmt, meta)
        if self._comp_depth:
            n.meta["in_comp"] = True
        self.nodes.append(n)
        return n

    def _connect(self, preds, node):
        for p, label in preds:
            if (node, label) not in p.succ:
                p.succ.append((node, label))
                node.pred.append((p, label))

    def _emit(self, kind, node, preds, meta=None):
        n = self._new(kind, node, meta)
        self._connect(preds, n)
        return n

    def _qual(self, expr):
        if self.idx is None or self.mod is None:
            return None
        try:
            return self.idx.qualname(self.mod, expr, self.func)
        except Exception:
            return None

    def _through_identity_wrapper(self, exc):
        """exc is `self.m(arg)` / `m(arg)` where every return of m returns its first (non-self) parameter: -> arg"""
        if not (isinstance(exc, ast.Call) and len(exc.args) == 1 and not exc.keywords) or self.idx is None:
            return None
        f = exc.func
        callee = None
        try:
            if isinstance(f, ast.Attribute) and isinstance(f.value, ast.Name) and self.func is not None and getattr(self.func, "cls", None) is not None and self.func.node.args.args and f.value.id == self.func.node.args.args[0].arg:
                callee = self.idx.find_method(self.func.cls, f.attr)
            elif isinstance(f, ast.Name) and self.mod is not None:
                r = self.idx.resolve(self.mod, f, self.func)
                callee = r[1] if r and r[0] == "func" else None
        except Exception:
            callee = None
        node = getattr(callee, "node_orig", None) or getattr(callee, "node", None)
        if not isinstance(node, ast.FunctionDef):
            return None
        params = [a.arg for a in node.args.args]
        if isinstance(f, ast.Attribute) and params:
            params = params[1:]
        if not params:
            return None
        rets = [n for n in ast.walk(node) if isinstance(n, ast.Return)]
        stores = [n for n in ast.walk(node) if isinstance(n, ast.Name) and isinstance(n.ctx, ast.Store) and n.id == params[0]]
        if rets and not stores and all(isinstance(r_.value, ast.Name) and r_.value.id == params[0] for r_ in rets):
            return exc.args[0]
        return None

    # ------------------------------------------------------------------ exceptions
    def _pad(self, depth=None):
        """landing pad for an exception of unknown type raised at context depth `depth`"""
        if depth is None:
            depth = len(self._ctx)
        i = depth - 1
        while i >= 0:
            c = self._ctx[i]
            if c["kind"] in ("try", "finally"):
                if c.get("pad") is None:
                    pad = self._new("pad", None, {"ctx": c["kind"]})
                    c["pad"] = pad
                    saved_ctx, saved_stmt = self._ctx, self._stmt
                    self._ctx = self._ctx[:i]
                    if c["kind"] == "try":
                        catch_all = False
                        for h, hnode in c["handlers"]:
                            self._connect([(pad, "exc")], hnode)
                            if self._handler_catches_all(h):
                                catch_all = True
                        if not catch_all:
                            self._connect([(pad, "exc")], self._pad(i))
                    else:
                        out = self._block(c["final"], [(pad, "exc")])
                        self._connect(out, self._pad(i))
                    self._ctx, self._stmt = saved_ctx, saved_stmt
                return c["pad"]
            i -= 1
        return self.raise_exit

    def _handler_types(self, h):
        if h.type is None:
            return None
        ts = h.type.elts if isinstance(h.type, ast.Tuple) else [h.type]
        return [self._qual(t) or ast.unparse(t) for t in ts]

    def _handler_catches_all(self, h):
        ts = self._handler_types(h)
        return ts is None or any(t in CATCH_ALL for t in ts)

    def _class_chain(self, qual):
        """qualified names of a raised class and its bases (package classes through the index)"""
        out = [qual]
        if self.idx is None:
            return out
        for ci in self.idx.classes:
            if ci.qual == qual:
                out = []
                for c in self.idx.mro(ci):
                    out.append(c.qual if hasattr(c, "qual") else ("builtins." + c if "." not in c else c))
                return out
        return out

    def _dispatch_raise(self, rnode, qual):
        """connect a raise of a known class (or None=unknown) to handlers / finally / exit"""
        if qual is None:
            self._connect([(rnode, "exc")], self._pad())
            return
        chain = self._class_chain(qual)
        builtin_exc = qual.startswith("builtins.")
        i = len(self._ctx) - 1
        preds = [(rnode, "exc")]
        while i >= 0:
            c = self._ctx[i]
            if c["kind"] == "try":
                for h, hnode in c["handlers"]:
                    ts = self._handler_types(h)
                    if ts is None or any(t in chain for t in ts) or any(t in CATCH_ALL for t in ts if not qual.endswith("BaseException")):
                        self._connect(preds, hnode)
                        return
                    if builtin_exc and ts is not None:
                        # builtin hierarchy not modelled beyond catch-all: may match
                        self._connect(preds, hnode)
            elif c["kind"] == "finally":
                saved_ctx, saved_stmt = self._ctx, self._stmt
                self._ctx = self._ctx[:i]
                preds = self._block(c["final"], preds)
                self._ctx, self._stmt = saved_ctx, saved_stmt
            i -= 1
        self._connect(preds, self.raise_exit)

    def _mayraise(self, node):
        self._connect([(node, "exc")], self._pad())

    # ------------------------------------------------------------------ jumps through finally
    def _through_finally(self, preds, down_to):
        """inline finally bodies between the current depth and context index `down_to` (exclusive)"""
        i = len(self._ctx) - 1
        while i >= down_to:
            c = self._ctx[i]
            if c["kind"] == "finally":
                saved_ctx, saved_stmt = self._ctx, self._stmt
                self._ctx = self._ctx[:i]
                preds = self._block(c["final"], preds)
                self._ctx, self._stmt = saved_ctx, saved_stmt
            i -= 1
        return preds

    # ------------------------------------------------------------------ statements
    def _block(self, stmts, preds):
        for s in stmts:
            if not preds:
                break
            preds = self._stmt_(s, preds)
        return preds

    def _stmt_(self, s, preds):
        saved = self._stmt
        self._stmt = s
        try:
            return self._stmt_inner(s, preds)
        finally:
            self._stmt = saved

    def _stmt_inner(self, s, preds):
        if isinstance(s, ast.Expr):
            if isinstance(s.value, ast.Constant):
                return preds
            if isinstance(s.value, (ast.Yield, ast.YieldFrom)):
                if s.value.value is not None:
                    preds = self._expr(s.value.value, preds)
                return [(self._emit("stmt", s, preds), "next")]
            return self._expr(s.value, preds)
        if isinstance(s, ast.Assign):
            preds = self._expr(s.value, preds)
            for t in s.targets:
                preds = self._store(t, preds, s.value)
            return preds
        if isinstance(s, ast.AnnAssign):
            if s.value is None:
                return preds
            preds = self._expr(s.value, preds)
            return self._store(s.target, preds, s.value)
        if isinstance(s, ast.AugAssign):
            t = s.target
            if isinstance(t, ast.Attribute):
                preds = self._expr(t.value, preds)
            elif isinstance(t, ast.Subscript):
                preds = self._expr(t.value, preds)
                preds = self._expr(t.slice, preds)
            preds = self._expr(s.value, preds)
            return [(self._emit("aug", s, preds, {"target": t}), "next")]
        if isinstance(s, ast.Return):
            if s.value is not None:
                preds = self._expr(s.value, preds)
            r = self._emit("return", s, preds)
            out = self._through_finally([(r, "next")], 0)
            self._connect(out, self.exit)
            return []
        if isinstance(s, ast.Raise):
            qual = None
            if s.exc is not None:
                preds = self._expr(s.exc, preds, raising=True)
                target = s.exc.func if isinstance(s.exc, ast.Call) else s.exc
                qual = self._qual(target)
                if qual is None and isinstance(s.exc, ast.Name):
                    # raise e  with  e = Err(...)  assigned exactly once in this function (e.g. an inlined helper's result)
                    defs = [n for n in ast.walk(self.fn) if isinstance(n, ast.Assign) and any(isinstance(t_, ast.Name) and t_.id == s.exc.id for t_ in n.targets)]
                    others = [n for n in ast.walk(self.fn) if isinstance(n, (ast.AugAssign, ast.For, ast.With, ast.ExceptHandler)) and s.exc.id in {x.id for x in ast.walk(n.target if hasattr(n, "target") else ast.Module(body=[], type_ignores=[])) if isinstance(x, ast.Name)}] if False else []
                    handlers = [h for h in ast.walk(self.fn) if isinstance(h, ast.ExceptHandler) and h.name == s.exc.id]
                    if len(defs) == 1 and not handlers and isinstance(defs[0].value, ast.Call):
                        qual = self._qual(defs[0].value.func)
                inner = self._through_identity_wrapper(s.exc)
                if inner is not None:
                    # raise self.note(Err(...)): a method that hands its argument back; what is raised is the argument
                    target = inner.func if isinstance(inner, ast.Call) else inner
                    qual = self._qual(target)
            else:
                # bare re-raise: the class caught by the enclosing handler
                for c in reversed(self._ctx):
                    if c["kind"] == "handler":
                        ts = self._handler_types(c["h"])
                        qual = ts[0] if ts and len(ts) == 1 else None
                        break
            r = self._emit("raise", s, preds, {"qual": qual})
            self._dispatch_raise(r, qual)
            return []
        if isinstance(s, ast.If):
            folded = self.fold(s.test) if self.fold else None
            if folded is True:
                return self._block(s.body, preds)
            if folded is False:
                return self._block(s.orelse, preds)
            t, f = self._cond(s.test, preds)
            return self._block(s.body, t) + self._block(s.orelse, f)
        if isinstance(s, (ast.For, ast.AsyncFor)):
            preds = self._expr(s.iter, preds)
            head = self._emit("iter", s, preds, {"iter": s.iter, "target": s.target})
            self._mayraise(head)
            loop = {"kind": "loop", "head": head, "breaks": []}
            self._ctx.append(loop)
            body_in = self._store(s.target, [(head, "loop")], None)
            out = self._block(s.body, body_in)
            self._connect(out, head)
            self._ctx.pop()
            after = self._block(s.orelse, [(head, "exit-loop")])
            return after + loop["breaks"]
        if isinstance(s, ast.While):
            anchor = self._emit("loophead", s, preds)
            loop = {"kind": "loop", "head": anchor, "breaks": []}
            self._ctx.append(loop)
            t, f = self._cond(s.test, [(anchor, "next")])
            out = self._block(s.body, t)
            self._connect(out, anchor)
            self._ctx.pop()
            after = self._block(s.orelse, f)
            return after + loop["breaks"]
        if isinstance(s, ast.Break):
            for i in range(len(self._ctx) - 1, -1, -1):
                if self._ctx[i]["kind"] == "loop":
                    n = self._emit("stmt", s, preds)
                    self._ctx[i]["breaks"].extend(self._through_finally([(n, "next")], i + 1))
                    return []
            raise AnalysisError("break outside loop")
        if isinstance(s, ast.Continue):
            for i in range(len(self._ctx) - 1, -1, -1):
                if self._ctx[i]["kind"] == "loop":
                    n = self._emit("stmt", s, preds)
                    self._connect(self._through_finally([(n, "next")], i + 1), self._ctx[i]["head"])
                    return []
            raise AnalysisError("continue outside loop")
        if isinstance(s, ast.Try):
            fin = None
            if s.finalbody:
                fin = {"kind": "finally", "final": s.finalbody, "pad": None}
                self._ctx.append(fin)
            handlers = []
            for h in s.handlers:
                hn = self._new("handler", h, {"types": self._handler_types(h), "name": h.name})
                handlers.append((h, hn))
            tctx = {"kind": "try", "handlers": handlers, "pad": None}
            if handlers:
                self._ctx.append(tctx)
            body_out = self._block(s.body, preds)
            if handlers:
                self._ctx.pop()
            outs = self._block(s.orelse, body_out)
            for h, hn in handlers:
                if not hn.pred:
                    # a handler nothing in the body was modelled to reach: keep it reachable from the body's start
                    # only if the body contains anything at all that may raise (else it is dead code)
                    pass
                self._ctx.append({"kind": "handler", "h": h})
                outs = outs + self._block(h.body, [(hn, "next")])
                self._ctx.pop()
            if fin is not None:
                self._ctx.pop()
                outs = self._block(s.finalbody, outs)
            return outs
        if isinstance(s, (ast.With, ast.AsyncWith)):
            for item in s.items:
                preds = self._expr(item.context_expr, preds)
                if item.optional_vars is not None:
                    preds = self._store(item.optional_vars, preds, item.context_expr)
            return self._block(s.body, preds)
        if isinstance(s, ast.Delete):
            for t in s.targets:
                if isinstance(t, ast.Subscript):
                    preds = self._expr(t.value, preds)
                    preds = self._expr(t.slice, preds)
                elif isinstance(t, ast.Attribute):
                    preds = self._expr(t.value, preds)
            return [(self._emit("del", s, preds), "next")]
        if isinstance(s, ast.Assert):
            t, f = self._cond(s.test, preds)
            if f:
                r = self._emit("raise", s, f, {"qual": "builtins.AssertionError"})
                self._dispatch_raise(r, "builtins.AssertionError")
            return t
        if isinstance(s, (ast.Pass, ast.Global, ast.Nonlocal, ast.Import, ast.ImportFrom)):
            return [(self._emit("stmt", s, preds), "next")]
        if isinstance(s, (ast.FunctionDef, ast.AsyncFunctionDef, ast.ClassDef)):
            return [(self._emit("def", s, preds, {"name": s.name}), "next")]
        raise AnalysisError("statement kind %s at line %s is outside the CFG builder's vocabulary" % (type(s).__name__, getattr(s, "lineno", "?")))

    def _store(self, t, preds, value):
        if isinstance(t, ast.Name):
            return [(self._emit("store", t, preds, {"name": t.id, "value": value}), "next")]
        if isinstance(t, ast.Attribute):
            preds = self._expr(t.value, preds)
            return [(self._emit("store", t, preds, {"attr": t.attr, "value": value}), "next")]
        if isinstance(t, ast.Subscript):
            preds = self._expr(t.value, preds)
            preds = self._expr(t.slice, preds)
            n = self._emit("store", t, preds, {"subscript": True, "value": value})
            return [(n, "next")]
        if isinstance(t, (ast.Tuple, ast.List)):
            for e in t.elts:
                preds = self._store(e, preds, None)
            return preds
        if isinstance(t, ast.Starred):
            return self._store(t.value, preds, None)
        raise AnalysisError("assignment target %s outside vocabulary" % type(t).__name__)

    # ------------------------------------------------------------------ expressions
    def _cond(self, e, preds):
        """returns (true_preds, false_preds)"""
        if isinstance(e, ast.BoolOp):
            if isinstance(e.op, ast.And):
                falses = []
                t = preds
                for v in e.values:
                    t, f = self._cond(v, t)
                    falses += f
                return t, falses
            trues = []
            f = preds
            for v in e.values:
                t, f = self._cond(v, f)
                trues += t
            return trues, f
        if isinstance(e, ast.UnaryOp) and isinstance(e.op, ast.Not):
            t, f = self._cond(e.operand, preds)
            return f, t
        folded = self.fold(e) if self.fold else None
        if folded is True:
            return preds, []
        if folded is False:
            return [], preds
        if isinstance(e, ast.Constant):
            return (preds, []) if e.value else ([], preds)
        preds = self._expr(e, preds)
        n = self._emit("test", e, preds)
        return [(n, "true")], [(n, "false")]

    def _expr(self, e, preds, raising=False):
        if e is None or not preds:
            return preds
        if isinstance(e, ast.Call):
            f = e.func
            if isinstance(f, ast.Attribute):
                preds = self._expr(f.value, preds)
            elif not isinstance(f, ast.Name):
                preds = self._expr(f, preds)
            for a in e.args:
                preds = self._expr(a, preds)
            for k in e.keywords:
                preds = self._expr(k.value, preds)
            q = self._qual(f)
            n = self._emit("call", e, preds, {"qual": q, "raising_ctor": raising})
            self._mayraise(n)
            if q in self.noreturn or (isinstance(f, ast.Name) and f.id in {x.split(".")[-1] for x in self.noreturn} and q is None):
                n.meta["noreturn"] = True
                return []
            return [(n, "next")]
        if isinstance(e, ast.Attribute):
            preds = self._expr(e.value, preds)
            if isinstance(e.ctx, ast.Load):
                n = self._emit("load", e, preds, {"attr": e.attr})
                return [(n, "next")]
            return preds
        if isinstance(e, ast.Subscript):
            preds = self._expr(e.value, preds)
            preds = self._expr(e.slice, preds)
            if isinstance(e.ctx, ast.Load):
                n = self._emit("sub", e, preds)
                self._mayraise(n)
                return [(n, "next")]
            return preds
        if isinstance(e, ast.BoolOp):
            t, f = self._cond(e, preds)
            return t + f
        if isinstance(e, ast.IfExp):
            t, f = self._cond(e.test, preds)
            return self._expr(e.body, t) + self._expr(e.orelse, f)
        if isinstance(e, (ast.ListComp, ast.SetComp, ast.GeneratorExp, ast.DictComp)):
            return self._comp(e, preds)
        if isinstance(e, ast.Lambda):
            self.lambdas.append(e)
            return preds
        if isinstance(e, ast.NamedExpr):
            preds = self._expr(e.value, preds)
            return self._store(e.target, preds, e.value)
        if isinstance(e, ast.Name):
            return preds
        if isinstance(e, ast.Constant):
            return preds
        for c in ast.iter_child_nodes(e):
            if isinstance(c, (ast.expr, ast.keyword, ast.FormattedValue)):
                preds = self._expr(c.value if isinstance(c, ast.keyword) else c, preds)
        return preds

    def _comp(self, e, preds):
        self._comp_depth += 1
        try:
            gens = e.generators

            def gen(i, preds):
                g = gens[i]
                preds = self._expr(g.iter, preds)
                head = self._emit("iter", e, preds, {"iter": g.iter, "target": g.target, "comp": True, "lazy": isinstance(e, ast.GeneratorExp)})
                self._mayraise(head)
                body = self._store(g.target, [(head, "loop")], None)
                for cond in g.ifs:
                    t, f = self._cond(cond, body)
                    self._connect(f, head)
                    body = t
                if i + 1 < len(gens):
                    body = gen(i + 1, body)
                else:
                    if isinstance(e, ast.DictComp):
                        body = self._expr(e.key, body)
                        body = self._expr(e.value, body)
                    else:
                        body = self._expr(e.elt, body)
                    body = [(self._emit("yield", e.elt if not isinstance(e, ast.DictComp) else e.value, body, {"comp": e}), "next")]
                self._connect(body, head)
                return [(head, "exit-loop")]

            return gen(0, preds)
        finally:
            self._comp_depth -= 1

    # ------------------------------------------------------------------ queries
    def find(self, kind=None, pred=None):
        out = []
        for n in self.nodes:
            if kind is not None and n.kind != kind and not (isinstance(kind, (tuple, set)) and n.kind in kind):
                continue
            if pred is not None and not pred(n):
                continue
            out.append(n)
        return out

    def reachable(self, start=None, avoid=(), labels=None):
        start = [self.entry] if start is None else (start if isinstance(start, (list, tuple, set)) else [start])
        avoid = set(avoid)
        seen = set()
        work = [n for n in start]
        while work:
            n = work.pop()
            if n in seen:
                continue
            seen.add(n)
            for m, lab in n.succ:
                if m in avoid or m in seen:
                    continue
                if labels is not None and lab not in labels:
                    continue
                work.append(m)
        return seen

    def live_nodes(self):
        return self.reachable()

    def dominators(self):
        if self._dom is not None:
            return self._dom
        live = self.reachable()
        order = self._rpo(self.entry, lambda n: [m for m, _ in n.succ])
        dom = {n: None for n in order}
        allset = set(order)
        dom[self.entry] = {self.entry}
        changed = True
        while changed:
            changed = False
            for n in order:
                if n is self.entry:
                    continue
                ps = [p for p, _ in n.pred if p in live and dom.get(p) is not None]
                if not ps:
                    continue
                new = set(allset)
                for p in ps:
                    new &= dom[p]
                new = new | {n}
                if dom[n] != new:
                    dom[n] = new
                    changed = True
        self._dom = dom
        return dom

    def _rpo(self, start, succ):
        seen = set()
        post = []
        stack = [(start, iter(succ(start)))]
        seen.add(start)
        while stack:
            n, it = stack[-1]
            adv = False
            for m in it:
                if m not in seen:
                    seen.add(m)
                    stack.append((m, iter(succ(m))))
                    adv = True
                    break
            if not adv:
                post.append(n)
                stack.pop()
        return list(reversed(post))

    def dominates(self, a, b):
        """every path from entry to b passes through a (b must be reachable)"""
        d = self.dominators().get(b)
        return d is not None and a in d

    def must_pass_through(self, src, dst, S):
        """every path from src to dst crosses a node of S (vacuously true when dst is unreachable from src)"""
        S = set(S)
        if src in S or dst in S:
            return True
        return dst not in self.reachable(src, avoid=S)

    def all_paths_reach(self, src, S, exits=None):
        """every path from src that ends at one of `exits` (default: normal exit) crosses S first"""
        exits = [self.exit] if exits is None else exits
        return all(self.must_pass_through(src, x, S) for x in exits)

    def paths(self, loop_bound=2, limit=50000, start=None):
        """enumerate entry->exit / raise_exit paths; each edge is taken at most `loop_bound` times per path."""
        start = self.entry if start is None else start
        out = []
        stack = [(start, [(start, None)], {})]
        while stack:
            n, path, cnt = stack.pop()
            if n is self.exit or n is self.raise_exit:
                out.append(path)
                if len(out) > limit:
                    raise AnalysisError("path enumeration exceeded %d paths" % limit)
                continue
            for m, lab in n.succ:
                k = (n.id, m.id, lab)
                c = cnt.get(k, 0)
                if c >= loop_bound:
                    continue
                cnt2 = dict(cnt)
                cnt2[k] = c + 1
                stack.append((m, path + [(m, lab)], cnt2))
        return out

    # ------------------------------------------------------------------ dataflow
    def forward(self, init, transfer, edge=None, join=None, must=True):
        """Generic forward dataflow.  States are dicts (key -> value).  join default: must (keep equal entries) or
        may (union of sets).  transfer(node, state) -> state after the node; edge(node, label, state) -> state or None."""

        def j_must(a, b):
            return {k: v for k, v in a.items() if k in b and b[k] == v}

        def j_may(a, b):
            out = dict(a)
            for k, v in b.items():
                out[k] = (out[k] | v) if k in out else v
            return out

        join = join or (j_must if must else j_may)
        IN = {self.entry: dict(init)}
        work = [self.entry]
        it = 0
        while work:
            it += 1
            if it > 20000:
                raise AnalysisError("dataflow did not converge")
            n = work.pop(0)
            st = IN[n]
            out = transfer(n, dict(st))
            for m, lab in n.succ:
                s2 = out if edge is None else edge(n, lab, dict(out))
                if s2 is None:
                    continue
                if m not in IN:
                    IN[m] = dict(s2)
                    work.append(m)
                else:
                    new = join(IN[m], s2)
                    if new != IN[m]:
                        IN[m] = new
                        if m not in work:
                            work.append(m)
        return IN

    def reaching_defs(self):
        """may-analysis: at node entry, name -> set of store nodes (or the token 'param')"""
        params = set()
        a = self.fn.args
        for x in a.posonlyargs + a.args + a.kwonlyargs:
            params.add(x.arg)
        if a.vararg:
            params.add(a.vararg.arg)
        if a.kwarg:
            params.add(a.kwarg.arg)
        init = {p: frozenset(["param"]) for p in params}

        def transfer(n, st):
            if n.kind == "store" and "name" in n.meta:
                st[n.meta["name"]] = frozenset([n])
            elif n.kind == "aug" and isinstance(n.meta.get("target"), ast.Name):
                st[n.meta["target"].id] = frozenset([n])
            elif n.kind == "handler" and n.meta.get("name"):
                st[n.meta["name"]] = frozenset([n])
            return st

        return self.forward(init, transfer, must=False)


def self_attr(expr, selfname="self"):
    """`self.x` -> 'x' else None"""
    if isinstance(expr, ast.Attribute) and isinstance(expr.value, ast.Name) and expr.value.id == selfname:
        return expr.attr
    return None


def flag_test(expr, selfname="self"):
    """Recognise a test of a boolean instance attribute: self.f | getattr(self, 'f', <const>) -> (attr, default)"""
    a = self_attr(expr, selfname)
    if a is not None:
        return a
    if (
        isinstance(expr, ast.Call)
        and isinstance(expr.func, ast.Name)
        and expr.func.id == "getattr"
        and len(expr.args) >= 2
        and isinstance(expr.args[0], ast.Name)
        and expr.args[0].id == selfname
        and isinstance(expr.args[1], ast.Constant)
        and isinstance(expr.args[1].value, str)
    ):
        return expr.args[1].value
    return None


def attr_typestate(cfg, attrs, selfname="self", init=None):
    """Path-sensitive must-facts about boolean instance attributes: returns IN map node -> {attr: True/False}.
    Refined on test edges (`if self.f`, `if not self.f` is handled by CFG negation), updated by constant stores,
    forgotten on non-constant stores and on calls that may re-enter (any call on self or unknown)."""
    attrs = set(attrs)

    def transfer(n, st):
        if n.kind == "store" and n.meta.get("attr") in attrs and self_attr(n.ast, selfname):
            v = n.meta.get("value")
            if isinstance(v, ast.Constant) and isinstance(v.value, bool):
                st[n.meta["attr"]] = v.value
            else:
                st.pop(n.meta["attr"], None)
        return st

    def edge(n, lab, st):
        if n.kind == "test" and lab in ("true", "false"):
            a = flag_test(n.ast, selfname)
            if a in attrs:
                want = lab == "true"
                if a in st and st[a] != want:
                    return None  # infeasible
                st[a] = want
        return st

    return cfg.forward(init or {}, transfer, edge=edge, must=True)
