"""Engine A: program index for /repo/mpilot — modules, imports, classes, MRO, functions, constants,
name resolution and a call graph.  Pure `ast`; nothing from the repository is imported or run."""
import ast
import builtins
import os

from .report import AnalysisError

PKG = "mpilot"
BUILTINS = set(dir(builtins))


class Module(object):
    def __init__(self, name, rel, path, tree, src, is_pkg):
        self.name = name
        self.rel = rel
        self.path = path
        self.tree = tree
        self.src = src
        self.is_pkg = is_pkg
        self.bindings = {}  # name -> binding tuple
        self.classes = {}
        self.funcs = {}
        self.consts = {}  # name -> value expr (module-level simple assignments)
        self.body = []  # top-level statements after folding configuration branches

    def __repr__(self):
        return "<Module %s>" % self.name


class ClassInfo(object):
    def __init__(self, name, module, node):
        self.name = name
        self.module = module
        self.node = node
        self.bases = []  # ClassInfo | str (external qualified name)
        self.methods = {}
        self.attrs = {}  # class-level assignments name -> value expr
        self.mro = None
        self.decorators = []

    @property
    def qual(self):
        return "%s.%s" % (self.module.name, self.name)

    def __repr__(self):
        return "<Class %s>" % self.qual


class FuncInfo(object):
    def __init__(self, name, module, node, cls=None, parent=None):
        self.name = name
        self.module = module
        self.node = node
        self.cls = cls
        self.parent = parent
        self.nested = {}
        self.local_bindings = {}  # function-level imports
        self.kind = "function"
        for d in node.decorator_list:
            if isinstance(d, ast.Name) and d.id in ("staticmethod", "classmethod", "property"):
                self.kind = d.id

    @property
    def qualname(self):
        if self.parent is not None:
            return "%s.<locals>.%s" % (self.parent.qualname, self.name)
        if self.cls is not None:
            return "%s.%s" % (self.cls.name, self.name)
        return self.name

    @property
    def key(self):
        return "%s::%s" % (self.module.rel, self.qualname)

    def __repr__(self):
        return "<Func %s>" % self.key


def _is_config_true(test):
    """`if six.PY3:` — folded to True (pyproject: Python 3 only)."""
    return isinstance(test, ast.Attribute) and isinstance(test.value, ast.Name) and test.value.id == "six" and test.attr == "PY3"


class Index(object):
    def __init__(self, repo="/repo", normalise=True):
        self.repo = repo
        self.modules = {}
        self.classes = []
        self.funcs = []
        self.config = {}
        self._load()
        self._bind()
        self._link_classes()
        self._check_config()
        self.inlined_helpers = []
        for fi in self.funcs:
            fi.node_orig = fi.node
            fi.absorbed = False
        if normalise:
            from .normalize import normalise as _n

            _n(self)

    # ------------------------------------------------------------------ loading
    def _load(self):
        root = os.path.join(self.repo, PKG)
        if not os.path.isdir(root):
            raise AnalysisError("package directory %s not found" % root)
        for dirpath, dirnames, filenames in os.walk(root):
            dirnames[:] = sorted(d for d in dirnames if d != "__pycache__")
            for fn in sorted(filenames):
                if not fn.endswith(".py"):
                    continue
                path = os.path.join(dirpath, fn)
                rel = os.path.relpath(path, self.repo)
                parts = rel[:-3].split(os.sep)
                is_pkg = parts[-1] == "__init__"
                if is_pkg:
                    parts = parts[:-1]
                name = ".".join(parts)
                with open(path, encoding="utf-8") as f:
                    src = f.read()
                try:
                    tree = ast.parse(src, filename=path)
                except SyntaxError as ex:
                    raise AnalysisError("cannot parse %s: %s" % (rel, ex))
                self.modules[name] = Module(name, rel, path, tree, src, is_pkg)

    def _fold_body(self, stmts):
        out = []
        for s in stmts:
            if isinstance(s, ast.If) and _is_config_true(s.test):
                out.extend(self._fold_body(s.body))
            else:
                out.append(s)
        return out

    def _abs_module(self, mod, level, name):
        if level == 0:
            return name
        parts = mod.name.split(".")
        if not mod.is_pkg:
            parts = parts[:-1]
        if level > 1:
            parts = parts[: len(parts) - (level - 1)]
        base = ".".join(parts)
        return base + ("." + name if name else "")

    def _import_bindings(self, mod, s, into):
        if isinstance(s, ast.Import):
            for a in s.names:
                if a.asname:
                    into[a.asname] = ("mod", a.name)
                else:
                    top = a.name.split(".")[0]
                    into[top] = ("mod", top)
        elif isinstance(s, ast.ImportFrom):
            if s.module == "__future__":
                return
            target = self._abs_module(mod, s.level, s.module or "")
            for a in s.names:
                nm = a.asname or a.name
                sub = target + "." + a.name
                if sub in self.modules:
                    into[nm] = ("mod", sub)
                else:
                    into[nm] = ("sym", target, a.name)

    def _bind(self):
        for mod in self.modules.values():
            mod.body = self._fold_body(mod.tree.body)
            for s in mod.body:
                if isinstance(s, (ast.Import, ast.ImportFrom)):
                    self._import_bindings(mod, s, mod.bindings)
                elif isinstance(s, ast.ClassDef):
                    ci = ClassInfo(s.name, mod, s)
                    mod.classes[s.name] = ci
                    mod.bindings[s.name] = ("class", ci)
                    self.classes.append(ci)
                    for b in self._fold_body(s.body):
                        if isinstance(b, ast.FunctionDef):
                            fi = FuncInfo(b.name, mod, b, cls=ci)
                            ci.methods[b.name] = fi
                            self._register_func(fi)
                        elif isinstance(b, ast.Assign):
                            for t in b.targets:
                                if isinstance(t, ast.Name):
                                    ci.attrs[t.id] = b.value
                elif isinstance(s, ast.FunctionDef):
                    fi = FuncInfo(s.name, mod, s)
                    mod.funcs[s.name] = fi
                    mod.bindings[s.name] = ("func", fi)
                    self._register_func(fi)
                elif isinstance(s, ast.Assign):
                    for t in s.targets:
                        if isinstance(t, ast.Name):
                            mod.consts[t.id] = s.value
                            mod.bindings[t.id] = ("const", mod, t.id)

    def _register_func(self, fi):
        self.funcs.append(fi)
        for n in self._iter_own_nodes(fi.node):
            if isinstance(n, (ast.Import, ast.ImportFrom)):
                self._import_bindings(fi.module, n, fi.local_bindings)
        for n in self._direct_nested_defs(fi.node):
            sub = FuncInfo(n.name, fi.module, n, cls=None, parent=fi)
            sub.enclosing_cls = fi.cls
            fi.nested[n.name] = sub
            self._register_func(sub)

    @staticmethod
    def _iter_own_nodes(fn):
        """all nodes of a function body, not descending into nested function/class definitions"""
        stack = list(fn.body)
        while stack:
            n = stack.pop()
            if isinstance(n, (ast.FunctionDef, ast.AsyncFunctionDef, ast.ClassDef)):
                continue  # a nested definition is its own scope
            yield n
            for c in ast.iter_child_nodes(n):
                if isinstance(c, (ast.FunctionDef, ast.AsyncFunctionDef, ast.ClassDef)):
                    continue
                stack.append(c)

    @staticmethod
    def _direct_nested_defs(fn):
        out = []
        stack = list(fn.body)
        while stack:
            n = stack.pop()
            if isinstance(n, ast.FunctionDef):
                out.append(n)
                continue
            if isinstance(n, ast.ClassDef):
                continue
            stack.extend(ast.iter_child_nodes(n))
        return sorted(out, key=lambda n: n.lineno)

    def _link_classes(self):
        for ci in self.classes:
            for b in ci.node.bases:
                r = self.resolve(ci.module, b)
                if r and r[0] == "class":
                    ci.bases.append(r[1])
                elif r and r[0] == "ext":
                    ci.bases.append(r[1])
                else:
                    ci.bases.append(ast.unparse(b))
            for d in ci.node.decorator_list:
                ci.decorators.append(d)
        for ci in self.classes:
            self.mro(ci)

    def mro(self, ci):
        if ci.mro is not None:
            return ci.mro
        ci.mro = [ci]  # guard against cycles
        seqs = []
        for b in ci.bases:
            if isinstance(b, ClassInfo):
                seqs.append(list(self.mro(b)))
            else:
                seqs.append([b])
        seqs.append([b for b in ci.bases])
        out = [ci]
        seqs = [list(s) for s in seqs if s]
        while seqs:
            cand = None
            for s in seqs:
                h = s[0]
                if not any(h in t[1:] for t in seqs):
                    cand = h
                    break
            if cand is None:
                raise AnalysisError("inconsistent MRO for %s" % ci.qual)
            out.append(cand)
            for s in seqs:
                if s and s[0] == cand:
                    del s[0]
            seqs = [s for s in seqs if s]
        ci.mro = out
        return out

    def _check_config(self):
        """The two configuration facts folded as constants must be stated by the repository itself."""
        pp = os.path.join(self.repo, "pyproject.toml")
        txt = ""
        if os.path.exists(pp):
            with open(pp, encoding="utf-8") as f:
                txt = f.read()
        self.config["py3_only"] = ("Python :: 3 :: Only" in txt) or ('python = "^3' in txt) or ('python = ">=3' in txt)
        import re

        m = re.search(r'^\s*numpy\s*=\s*"[\^~>=]*\s*(\d+)\.(\d+)', txt, re.M)
        self.config["numpy_min"] = (int(m.group(1)), int(m.group(2))) if m else None
        if not self.config["py3_only"]:
            raise AnalysisError("pyproject.toml no longer states Python 3 only; `six.PY3` can not be folded to True")

    # ------------------------------------------------------------------ lookups
    def module_of(self, rel_or_name):
        for m in self.modules.values():
            if m.rel == rel_or_name or m.name == rel_or_name:
                return m
        raise AnalysisError("module %s vanished" % rel_or_name)

    def cls(self, modname, clsname):
        m = self.module_of(modname)
        if clsname not in m.classes:
            raise AnalysisError("class %s vanished from %s" % (clsname, m.rel))
        return m.classes[clsname]

    def func(self, modname, qual):
        m = self.module_of(modname)
        parts = qual.split(".")
        if len(parts) == 1:
            if parts[0] in m.funcs:
                return m.funcs[parts[0]]
        elif parts[0] in m.classes and parts[1] in m.classes[parts[0]].methods:
            f = m.classes[parts[0]].methods[parts[1]]
            for p in parts[2:]:
                if p == "<locals>":
                    continue
                f = f.nested.get(p)
                if f is None:
                    break
            if f is not None:
                return f
        raise AnalysisError("function %s vanished from %s" % (qual, m.rel))

    def find_method(self, ci, name, after=None):
        """method lookup through the MRO; `after` = class after which to start (super semantics)."""
        mro = self.mro(ci)
        start = 0
        if after is not None:
            if after not in mro:
                return None
            start = mro.index(after) + 1
        for c in mro[start:]:
            if isinstance(c, ClassInfo) and name in c.methods:
                return c.methods[name]
        return None

    def find_attr(self, ci, name):
        for c in self.mro(ci):
            if isinstance(c, ClassInfo) and name in c.attrs:
                return c, c.attrs[name]
        return None, None

    def subclasses(self, ci, strict=False):
        return [c for c in self.classes if ci in self.mro(c) and not (strict and c is ci)]

    def is_subclass(self, ci, qual_or_ci):
        for c in self.mro(ci):
            if c is qual_or_ci:
                return True
            if isinstance(c, ClassInfo) and isinstance(qual_or_ci, str) and (c.qual == qual_or_ci or c.name == qual_or_ci):
                return True
            if isinstance(c, str) and c == qual_or_ci:
                return True
        return False

    # ------------------------------------------------------------------ name resolution
    def _chase(self, binding, depth=0):
        if binding is None or depth > 10:
            return None
        kind = binding[0]
        if kind == "sym":
            _, target, name = binding
            if target in self.modules:
                m = self.modules[target]
                b = m.bindings.get(name)
                if b is None:
                    return None
                return self._chase(b, depth + 1)
            return ("ext", target + "." + name)
        if kind == "mod":
            return binding
        if kind in ("class", "func"):
            return binding
        if kind == "const":
            return binding
        return None

    def resolve(self, mod, expr, func=None):
        """Resolve a Name / dotted Attribute expression in module (and function) scope.
        Returns ('class', ClassInfo) | ('func', FuncInfo) | ('const', Module, name) | ('mod', name) |
        ('ext', 'numpy.ma.array') | ('builtin', name) | ('method', ClassInfo, FuncInfo) | ('classattr', ClassInfo, name) | None"""
        if isinstance(expr, ast.Name):
            f = func
            while f is not None:
                if expr.id in f.nested:
                    return ("func", f.nested[expr.id])
                if expr.id in f.local_bindings:
                    return self._chase(f.local_bindings[expr.id])
                f = f.parent
            b = mod.bindings.get(expr.id)
            if b is not None:
                return self._chase(b)
            if expr.id in BUILTINS:
                return ("builtin", expr.id)
            return None
        if isinstance(expr, ast.Attribute):
            base = self.resolve(mod, expr.value, func)
            if base is None:
                return None
            if base[0] == "mod":
                full = base[1] + "." + expr.attr
                if full in self.modules:
                    return ("mod", full)
                if base[1] in self.modules:
                    b = self.modules[base[1]].bindings.get(expr.attr)
                    return self._chase(b) if b is not None else None
                return ("ext", full)
            if base[0] == "ext":
                return ("ext", base[1] + "." + expr.attr)
            if base[0] == "class":
                m = self.find_method(base[1], expr.attr)
                if m is not None:
                    return ("method", base[1], m)
                c, v = self.find_attr(base[1], expr.attr)
                if c is not None:
                    return ("classattr", c, expr.attr)
                return None
        return None

    def qualname(self, mod, expr, func=None):
        r = self.resolve(mod, expr, func)
        if r is None:
            return None
        if r[0] == "ext":
            return r[1]
        if r[0] == "builtin":
            return "builtins." + r[1]
        if r[0] == "class":
            return r[1].qual
        if r[0] == "func":
            return "%s.%s" % (r[1].module.name, r[1].qualname)
        if r[0] == "mod":
            return r[1]
        if r[0] == "const":
            return "%s.%s" % (r[1].name, r[2])
        if r[0] == "method":
            return "%s.%s" % (r[1].qual, r[2].name)
        if r[0] == "classattr":
            return "%s.%s" % (r[1].qual, r[2])
        return None

    # ------------------------------------------------------------------ constants
    def const(self, mod, expr, func=None, depth=0):
        """Fold an expression to a python value; raises KeyError when it is not a constant."""
        if depth > 12:
            raise KeyError("depth")
        if isinstance(expr, ast.Constant):
            return expr.value
        if isinstance(expr, (ast.Tuple, ast.List)):
            vals = [self.const(mod, e, func, depth + 1) for e in expr.elts]
            return tuple(vals) if isinstance(expr, ast.Tuple) else vals
        if isinstance(expr, ast.Set):
            return set(self.const(mod, e, func, depth + 1) for e in expr.elts)
        if isinstance(expr, ast.Dict):
            return {self.const(mod, k, func, depth + 1): self.const(mod, v, func, depth + 1) for k, v in zip(expr.keys, expr.values)}
        if isinstance(expr, ast.UnaryOp) and isinstance(expr.op, (ast.USub, ast.UAdd)):
            v = self.const(mod, expr.operand, func, depth + 1)
            return -v if isinstance(expr.op, ast.USub) else +v
        if isinstance(expr, ast.BinOp) and isinstance(expr.op, (ast.Add, ast.Sub, ast.Mult)):
            a = self.const(mod, expr.left, func, depth + 1)
            b = self.const(mod, expr.right, func, depth + 1)
            if isinstance(expr.op, ast.Add):
                return a + b
            if isinstance(expr.op, ast.Sub):
                return a - b
            return a * b
        if isinstance(expr, (ast.Name, ast.Attribute)):
            r = self.resolve(mod, expr, func)
            if r and r[0] == "const":
                m, name = r[1], r[2]
                if not self._single_assignment(m, name):
                    raise KeyError(name)
                return self.const(m, m.consts[name], None, depth + 1)
            if r and r[0] in ("ext", "builtin", "class"):
                return TypeRef(self.qualname(mod, expr, func))
        raise KeyError(ast.dump(expr)[:60])

    def _single_assignment(self, mod, name):
        n = 0
        for node in ast.walk(mod.tree):
            if isinstance(node, (ast.Assign, ast.AugAssign, ast.AnnAssign)):
                targets = node.targets if isinstance(node, ast.Assign) else [node.target]
                for t in targets:
                    for x in ast.walk(t):
                        if isinstance(x, ast.Name) and x.id == name and isinstance(x.ctx, ast.Store):
                            n += 1
            elif isinstance(node, ast.Global) and name in node.names:
                n += 5
        return n == 1

    # ------------------------------------------------------------------ call graph
    def enclosing_class(self, fi):
        f = fi
        while f is not None:
            if f.cls is not None:
                return f.cls
            f = f.parent
        return None

    def methods_named(self, name):
        return [c.methods[name] for c in self.classes if name in c.methods]

    def call_targets(self, fi, call):
        """Resolve a Call node inside function fi to package functions it may invoke.
        Returns (targets, how) where how in resolved/self/super/class/by-name/external/unknown."""
        f = call.func
        mod = fi.module
        cls = self.enclosing_class(fi)
        selfname = None
        top = fi
        while top.parent is not None:
            top = top.parent
        if top.cls is not None and top.kind != "staticmethod" and top.node.args.args:
            selfname = top.node.args.args[0].arg
        # super(K, self).m(...) / super().m(...)
        if isinstance(f, ast.Attribute) and isinstance(f.value, ast.Call) and isinstance(f.value.func, ast.Name) and f.value.func.id == "super":
            k = cls
            if f.value.args:
                r = self.resolve(mod, f.value.args[0], fi)
                if r and r[0] == "class":
                    k = r[1]
            if cls is None or k is None:
                return [], "unknown"
            out = []
            # the instance may be of any subclass of cls
            for sub in self.subclasses(cls):
                m = self.find_method(sub, f.attr, after=k)
                if m is not None and m not in out:
                    out.append(m)
            return out, "super"
        if isinstance(f, ast.Attribute) and isinstance(f.value, ast.Name) and f.value.id == selfname and cls is not None:
            if top.kind == "classmethod":
                subs = self.subclasses(cls)
            else:
                subs = self.subclasses(cls)
            out = []
            for sub in subs:
                m = self.find_method(sub, f.attr)
                if m is not None and m not in out:
                    out.append(m)
            if out:
                return out, "self"
            # attribute holding a callable (self.parser.parse): fall through to by-name
        r = self.resolve(mod, f, fi)
        if r is not None:
            if r[0] == "func":
                return [r[1]], "resolved"
            if r[0] == "method":
                return [r[2]], "class"
            if r[0] == "class":
                out = []
                init = self.find_method(r[1], "__init__")
                if init is not None:
                    out.append(init)
                return out, "constructor"
            if r[0] in ("ext", "builtin"):
                return [], "external"
        if isinstance(f, ast.Attribute):
            # receiver of unknown type: every package method of that name (sound over-approximation)
            return list(self.methods_named(f.attr)), "by-name"
        if isinstance(f, ast.Name):
            return [], "unknown"
        return [], "unknown"

    def own_calls(self, fi):
        out = [n for n in self._iter_own_nodes(fi.node) if isinstance(n, ast.Call)]
        return sorted(out, key=lambda n: (n.lineno, n.col_offset))

    def property_reads(self, fi):
        """Attribute loads that may invoke a package @property: (node, [FuncInfo])"""
        out = []
        props = {}
        for c in self.classes:
            for m in c.methods.values():
                if m.kind == "property":
                    props.setdefault(m.name, []).append(m)
        for n in self._iter_own_nodes(fi.node):
            if isinstance(n, ast.Attribute) and isinstance(n.ctx, ast.Load) and n.attr in props:
                out.append((n, props[n.attr]))
        return out

    def callees(self, fi):
        res = set()
        for c in self.own_calls(fi):
            t, _ = self.call_targets(fi, c)
            res.update(t)
        for _, ps in self.property_reads(fi):
            res.update(ps)
        for n in fi.nested.values():
            res.add(n)  # a nested function may be called by its parent
        return res

    def reachable(self, start, stop=()):
        """functions reachable from `start` (list of FuncInfo) without expanding functions in `stop`"""
        seen = set()
        work = list(start)
        parent = {}
        while work:
            f = work.pop()
            if f in seen:
                continue
            seen.add(f)
            if f in stop:
                continue
            for g in self.callees(f):
                if g not in seen:
                    parent.setdefault(g, f)
                    work.append(g)
        return seen, parent

    @staticmethod
    def chain(parent, f):
        out = [f]
        while f in parent:
            f = parent[f]
            out.append(f)
        return [x.key for x in reversed(out)]


class TypeRef(object):
    """a reference to a type object / external name inside a folded constant"""

    def __init__(self, qual):
        self.qual = qual

    def __repr__(self):
        return "<%s>" % self.qual

    def __eq__(self, other):
        return isinstance(other, TypeRef) and other.qual == self.qual

    def __hash__(self):
        return hash(self.qual)


def own_nodes(fn_node):
    return Index._iter_own_nodes(fn_node)
