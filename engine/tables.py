"""Engine A, part 2: declaration tables — parameter trees, the command table, library sets, exception classes."""
import ast

from .index import ClassInfo, TypeRef
from .report import AnalysisError

PARAMS_MOD = "mpilot.params"
COMMANDS_MOD = "mpilot.commands"


class ParamTree(object):
    """A statically evaluated `params.X(...)` constructor expression."""

    def __init__(self, cls, kwargs, node):
        self.cls = cls  # ClassInfo of the parameter class
        self.kw = kwargs  # bound constructor arguments (name -> ParamTree | python const | TypeRef ...)
        self.node = node

    @property
    def name(self):
        return self.cls.name

    @property
    def required(self):
        return self.kw.get("required", True)

    def is_a(self, idx, clsname):
        return idx.is_subclass(self.cls, clsname)

    def short(self):
        parts = []
        for k, v in self.kw.items():
            if isinstance(v, ParamTree):
                parts.append("%s=%s" % (k, v.short()))
            elif k in ("is_fuzzy", "required", "must_exist") and v is not None:
                parts.append("%s=%r" % (k, v))
        return "%s(%s)" % (self.name.replace("Parameter", ""), ", ".join(parts))

    def __repr__(self):
        return self.short()


def ctor_signature(idx, ci):
    """Parameter names/defaults accepted by ci(...), following **kwargs forwarding to super().__init__."""
    order = []
    defaults = {}
    seen = set()
    k = ci
    after = None
    while True:
        init = idx.find_method(k, "__init__", after=after)
        if init is None:
            break
        a = init.node.args
        pos = [x.arg for x in a.args[1:]]
        dflt = a.defaults
        for i, nm in enumerate(pos):
            if nm not in seen:
                seen.add(nm)
                order.append(nm)
                j = i - (len(pos) - len(dflt))
                if j >= 0:
                    defaults[nm] = (init, dflt[j])
        if a.kwarg is None:
            break
        after = init.cls
        k = ci
    return order, defaults


def eval_param(idx, mod, expr, func=None):
    if not isinstance(expr, ast.Call):
        raise AnalysisError("parameter declaration is not a constructor call: %s" % ast.unparse(expr))
    r = idx.resolve(mod, expr.func, func)
    if not r or r[0] != "class" or not idx.is_subclass(r[1], PARAMS_MOD + ".Parameter"):
        raise AnalysisError("parameter declaration does not construct a params.* class: %s" % ast.unparse(expr))
    ci = r[1]
    order, defaults = ctor_signature(idx, ci)
    bound = {}
    for i, a in enumerate(expr.args):
        if i >= len(order):
            raise AnalysisError("too many positional arguments in %s" % ast.unparse(expr))
        bound[order[i]] = (mod, a)
    for k in expr.keywords:
        if k.arg is None:
            raise AnalysisError("**kwargs in parameter declaration %s" % ast.unparse(expr))
        bound[k.arg] = (mod, k.value)
    for nm, (init, d) in defaults.items():
        if nm not in bound:
            bound[nm] = (init.module, d)
    kw = {}
    for nm, (m, e) in bound.items():
        kw[nm] = eval_param_arg(idx, m, e)
    return ParamTree(ci, kw, expr)


def eval_param_arg(idx, mod, e):
    if isinstance(e, ast.Call):
        r = idx.resolve(mod, e.func)
        if r and r[0] == "class" and idx.is_subclass(r[1], PARAMS_MOD + ".Parameter"):
            return eval_param(idx, mod, e)
    try:
        return idx.const(mod, e)
    except KeyError:
        return Opaque(ast.unparse(e))


class Opaque(object):
    def __init__(self, text):
        self.text = text

    def __repr__(self):
        return "<opaque %s>" % self.text


class CommandDecl(object):
    def __init__(self, idx, ci):
        self.idx = idx
        self.cls = ci
        self.module = ci.module
        n = ci.attrs.get("name")
        self.name = ci.name
        if n is not None:
            try:
                self.name = idx.const(ci.module, n)
            except KeyError:
                raise AnalysisError("command name of %s is not a literal" % ci.qual)
        self.inputs = {}
        self.inputs_node = ci.attrs.get("inputs")
        if self.inputs_node is not None:
            if not isinstance(self.inputs_node, ast.Dict):
                raise AnalysisError("inputs of %s is not a dict literal" % ci.qual)
            for k, v in zip(self.inputs_node.keys, self.inputs_node.values):
                if not (isinstance(k, ast.Constant) and isinstance(k.value, str)):
                    raise AnalysisError("non-literal input name in %s" % ci.qual)
                self.inputs[k.value] = eval_param(idx, ci.module, v)
        self.output_node = ci.attrs.get("output")
        self.output = None
        if self.output_node is not None and not (isinstance(self.output_node, ast.Constant) and self.output_node.value is None):
            self.output = eval_param(idx, ci.module, self.output_node)
        c, v = idx.find_attr(ci, "is_fuzzy")
        self.is_fuzzy = None
        self.is_fuzzy_literal = True
        if v is not None:
            try:
                self.is_fuzzy = idx.const(c.module, v)
            except KeyError:
                self.is_fuzzy_literal = False
            if not isinstance(self.is_fuzzy, bool):
                self.is_fuzzy_literal = False
        ae = ci.attrs.get("allow_extra_inputs")
        self.allow_extra_inputs = False
        if ae is not None:
            try:
                self.allow_extra_inputs = bool(idx.const(ci.module, ae))
            except KeyError:
                self.allow_extra_inputs = True
        self.execute = idx.find_method(ci, "execute")

    @property
    def key(self):
        return "%s::%s" % (self.module.rel, self.cls.name)

    def is_data(self, p=None):
        p = self.output if p is None else p
        return p is not None and p.is_a(self.idx, PARAMS_MOD + ".DataParameter")

    def ref_inputs(self):
        """names of inputs declared Result(...) or List(Result(...)) -> ('cmd'|'cmdlist', ParamTree of the Result)"""
        out = {}
        for nm, p in self.inputs.items():
            if p.is_a(self.idx, PARAMS_MOD + ".ResultParameter"):
                out[nm] = ("cmd", p)
            elif p.is_a(self.idx, PARAMS_MOD + ".ListParameter"):
                vt = p.kw.get("value_type")
                depth = 0
                while isinstance(vt, ParamTree) and vt.is_a(self.idx, PARAMS_MOD + ".ListParameter") and depth < 4:
                    vt = vt.kw.get("value_type")
                    depth += 1
                if isinstance(vt, ParamTree) and vt.is_a(self.idx, PARAMS_MOD + ".ResultParameter"):
                    out[nm] = ("cmdlist", vt)
        return out


def command_base(idx):
    return idx.cls(COMMANDS_MOD, "Command")


def command_table(idx):
    base = command_base(idx)
    out = []
    for ci in idx.classes:
        if ci is base or base not in idx.mro(ci):
            continue
        out.append(CommandDecl(idx, ci))
    return out


def library_sets(idx):
    prog = idx.module_of("mpilot.program")
    sets = {}
    for nm in ("EEMS_CSV_LIBRARIES", "EEMS_NETCDF_LIBRARIES"):
        if nm not in prog.consts:
            raise AnalysisError("%s vanished from mpilot/program.py" % nm)
        try:
            v = idx.const(prog, prog.consts[nm])
        except KeyError:
            raise AnalysisError("%s is not a constant tuple" % nm)
        sets[nm] = tuple(v)
    return sets


def in_library(modname, libs):
    return any(modname == lib or modname.startswith(lib + ".") for lib in libs)


def visible_commands(table, libs):
    return [c for c in table if in_library(c.module.name, libs)]


def exception_classes(idx):
    root = idx.cls("mpilot.exceptions", "MPilotError")
    return root, [c for c in idx.classes if root in idx.mro(c)]


def ctor_bind(idx, ci, call):
    """Bind a constructor call's arguments to the parameter names of ci.__init__ (no kwargs chaining).
    Returns dict name -> expr, or None if the class has no package __init__."""
    init = idx.find_method(ci, "__init__")
    if init is None:
        return None
    a = init.node.args
    pos = [x.arg for x in a.args[1:]]
    out = {}
    for i, e in enumerate(call.args):
        if isinstance(e, ast.Starred):
            return None
        if i < len(pos):
            out[pos[i]] = e
        else:
            out["*%d" % i] = e
    for k in call.keywords:
        if k.arg is None:
            return None
        out[k.arg] = k.value
    return out


def typeref_name(v):
    return v.qual if isinstance(v, TypeRef) else repr(v)
