"""Syntactic normal forms applied to every function body before helpers are inlined.

Each rewrite replaces an idiom by the equivalent form the rules and engines already understand; none of them changes what
the code computes.  They are deliberately narrow: a construct that does not match exactly is left alone.

  * `functools.partial(f, *a, **k)(*b, **k2)`            -> `f(*a, *b, **k, **k2)`; a local bound once to a partial and only
                                                            ever called is expanded at its call sites
  * `map(f, xs)` / `filter(p, xs)`                       -> generator expressions (a lambda is applied in place)
  * `i = c; while i < len(xs): BODY; i += 1`             -> `for i in range(c, len(xs)): BODY`   (canonical index loops only)
  * `it = iter(xs); first = next(it); for x in it: ...`  -> `first = xs[0]; for x in xs[1:]: ...`
"""
import ast
import copy


def _is_name(n, ident=None):
    return isinstance(n, ast.Name) and (ident is None or n.id == ident)


def _qual(idx, mod, fi, e):
    try:
        return idx.qualname(mod, e, fi)
    except Exception:
        return None


# ------------------------------------------------------------------------------------------------ partial
def _merge_partial(idx, mod, fi, call):
    """Call(func=partial(g, *a, **k), *b, **k2) -> Call(g, *a, *b, **k, **k2)"""
    f = call.func
    if isinstance(f, ast.Call) and _qual(idx, mod, fi, f.func) == "functools.partial" and f.args:
        if any(isinstance(x, ast.Starred) for x in f.args + call.args) or any(k.arg is None for k in f.keywords + call.keywords):
            return None
        later = {k.arg for k in call.keywords}
        kws = [k for k in f.keywords if k.arg not in later] + list(call.keywords)
        return ast.copy_location(ast.Call(func=f.args[0], args=list(f.args[1:]) + list(call.args), keywords=kws), call)
    return None


class _Partial(ast.NodeTransformer):
    def __init__(self, idx, mod, fi, locals_, shadowed=()):
        self.idx, self.mod, self.fi, self.locals = idx, mod, fi, locals_
        self.shadowed = set(shadowed)

    def visit_FunctionDef(self, node):
        return node

    def visit_Call(self, node):
        self.generic_visit(node)
        if isinstance(node.func, ast.Name) and node.func.id in self.locals:
            node = ast.copy_location(ast.Call(func=copy.deepcopy(self.locals[node.func.id]), args=node.args, keywords=node.keywords), node)
        elif isinstance(node.func, ast.Name) and node.func.id not in self.shadowed:
            # a module-level name bound once to functools.partial(...) in this module
            r = None
            try:
                r = self.idx.resolve(self.mod, node.func, self.fi)
            except Exception:
                r = None
            if r and r[0] == "const" and r[1] is self.mod and self.idx._single_assignment(r[1], r[2]):
                v = r[1].consts.get(r[2])
                if isinstance(v, ast.Call) and _qual(self.idx, self.mod, None, v.func) == "functools.partial" and v.args:
                    node = ast.copy_location(ast.Call(func=copy.deepcopy(v), args=node.args, keywords=node.keywords), node)
        m = _merge_partial(self.idx, self.mod, self.fi, node)
        return m if m is not None else node


def expand_partials(idx, mod, fi, fn):
    stores = {}
    for n in ast.walk(fn):
        if isinstance(n, ast.Name) and isinstance(n.ctx, ast.Store):
            stores[n.id] = stores.get(n.id, 0) + 1
    cands = {}
    for n in ast.walk(fn):
        if isinstance(n, ast.Assign) and len(n.targets) == 1 and _is_name(n.targets[0]) and isinstance(n.value, ast.Call) and _qual(idx, mod, fi, n.value.func) == "functools.partial" and n.value.args:
            if stores.get(n.targets[0].id) == 1:
                cands[n.targets[0].id] = n
    # the bound name must only ever be called (or be passed as the callee of map(): handled after expansion)
    parents = {}
    for n in ast.walk(fn):
        for c in ast.iter_child_nodes(n):
            parents[id(c)] = n
    for n in ast.walk(fn):
        if isinstance(n, ast.Name) and isinstance(n.ctx, ast.Load) and n.id in cands:
            p = parents.get(id(n))
            if not (isinstance(p, ast.Call) and p.func is n):
                cands.pop(n.id, None)
    locals_ = {k: v.value for k, v in cands.items()}
    fn = _Partial(idx, mod, fi, locals_, shadowed=set(stores) | {a.arg for a in fn.args.args}).generic_visit(fn)
    if cands:
        drop = {id(v) for v in cands.values()}

        class D(ast.NodeTransformer):
            def visit_Assign(self, node):
                return None if id(node) in drop else node

        fn = D().visit(fn)
        for n in ast.walk(fn):
            for f_ in ("body", "orelse", "finalbody"):
                v = getattr(n, f_, None)
                if isinstance(v, list) and not v and f_ == "body":
                    setattr(n, f_, [ast.Pass(lineno=getattr(n, "lineno", 1), col_offset=0)])
    return fn


# ------------------------------------------------------------------------------------------------ map / filter
class _MapFilter(ast.NodeTransformer):
    def __init__(self, idx, mod, fi):
        self.idx, self.mod, self.fi = idx, mod, fi
        self.n = 0

    def visit_FunctionDef(self, node):
        return node

    def _apply(self, f, arg):
        if isinstance(f, ast.Lambda) and len(f.args.args) == 1 and not f.args.defaults and not f.args.vararg and not f.args.kwarg:
            pname = f.args.args[0].arg

            class S(ast.NodeTransformer):
                def visit_Name(self, n):
                    return copy.deepcopy(arg) if n.id == pname and isinstance(n.ctx, ast.Load) else n

                def visit_Lambda(self, n):
                    return n

            return S().visit(copy.deepcopy(f.body))
        return ast.Call(func=copy.deepcopy(f), args=[arg], keywords=[])

    def visit_Call(self, node):
        self.generic_visit(node)
        q = _qual(self.idx, self.mod, self.fi, node.func) if isinstance(node.func, (ast.Name, ast.Attribute)) else None
        if q in ("builtins.map", "builtins.filter") and len(node.args) == 2 and not node.keywords and not isinstance(node.args[0], ast.Constant):
            self.n += 1
            v = "__m%d" % self.n
            tgt = ast.Name(id=v, ctx=ast.Store())
            ref = ast.Name(id=v, ctx=ast.Load())
            if q.endswith("map"):
                elt, ifs = self._apply(node.args[0], ref), []
            else:
                elt, ifs = ref, [self._apply(node.args[0], ast.Name(id=v, ctx=ast.Load()))]
            g = ast.GeneratorExp(elt=elt, generators=[ast.comprehension(target=tgt, iter=node.args[1], ifs=ifs, is_async=0)])
            return ast.copy_location(g, node)
        if q == "builtins.dict" and len(node.args) == 1 and not node.keywords and isinstance(node.args[0], (ast.GeneratorExp, ast.ListComp)) and isinstance(node.args[0].elt, ast.Tuple) and len(node.args[0].elt.elts) == 2:
            k_, v_ = node.args[0].elt.elts
            return ast.copy_location(ast.DictComp(key=k_, value=v_, generators=node.args[0].generators), node)
        if q in ("builtins.list", "builtins.tuple", "builtins.set") and len(node.args) == 1 and isinstance(node.args[0], ast.GeneratorExp) and q.endswith("list"):
            lc = ast.ListComp(elt=node.args[0].elt, generators=node.args[0].generators)
            return ast.copy_location(lc, node)
        return node


# ------------------------------------------------------------------------------------------------ while -> for
def _stores(stmts, name):
    return [n for st in stmts for n in ast.walk(st) if isinstance(n, ast.Name) and n.id == name and isinstance(n.ctx, (ast.Store, ast.Del))]


def while_to_for(stmts):
    """`i = c` ... `while i < N: BODY; i += 1` (i assigned nowhere else in BODY, no continue/break in BODY) -> for i in range(c, N)"""
    out = []
    i = 0
    while i < len(stmts):
        st = stmts[i]
        # recurse first
        for f_ in ("body", "orelse", "finalbody"):
            v = getattr(st, f_, None)
            if isinstance(v, list) and v and isinstance(v[0], ast.stmt):
                setattr(st, f_, while_to_for(v))
        for h in getattr(st, "handlers", []) or []:
            h.body = while_to_for(h.body)
        if isinstance(st, ast.While) and not st.orelse and isinstance(st.test, ast.Compare) and len(st.test.ops) == 1 and isinstance(st.test.ops[0], ast.Lt) and _is_name(st.test.left):
            var = st.test.left.id
            bound = st.test.comparators[0]
            body = st.body
            last = body[-1] if body else None
            inc = isinstance(last, ast.AugAssign) and _is_name(last.target, var) and isinstance(last.op, ast.Add) and isinstance(last.value, ast.Constant) and last.value.value == 1
            clean = inc and not _stores(body[:-1], var) and not any(isinstance(n, (ast.Continue, ast.Break)) for b in body for n in ast.walk(b)) \
                and var not in {n.id for n in ast.walk(bound) if isinstance(n, ast.Name)} \
                and not any(isinstance(n, ast.Name) and isinstance(n.ctx, (ast.Store, ast.Del)) and n.id in {m.id for m in ast.walk(bound) if isinstance(m, ast.Name)} for b in body for n in ast.walk(b))
            # the initialisation: the closest preceding `var = <expr>` at this level with no use of var in between
            init_j = None
            for j in range(len(out) - 1, -1, -1):
                p = out[j]
                if isinstance(p, ast.Assign) and len(p.targets) == 1 and _is_name(p.targets[0], var):
                    init_j = j
                    break
                if any(isinstance(n, ast.Name) and n.id == var for n in ast.walk(p)):
                    break
            used_after = any(isinstance(n, ast.Name) and n.id == var for later in stmts[i + 1:] for n in ast.walk(later))
            if clean and init_j is not None and not used_after:
                start = out[init_j].value
                del out[init_j]
                rng = ast.Call(func=ast.Name(id="range", ctx=ast.Load()), args=[start, bound], keywords=[])
                f = ast.For(target=ast.Name(id=var, ctx=ast.Store()), iter=rng, body=body[:-1] or [ast.Pass()], orelse=[], lineno=st.lineno, col_offset=st.col_offset)
                out.append(ast.fix_missing_locations(ast.copy_location(f, st)))
                i += 1
                continue
        out.append(st)
        i += 1
    return out


# ------------------------------------------------------------------------------------------------ iter / next
def iter_next(stmts):
    """it = iter(xs); first = <expr with next(it)>; for x in it: ...   ->   first = <expr with xs[0]>; for x in xs[1:]: ..."""
    out = list(stmts)
    for st in out:
        for f_ in ("body", "orelse", "finalbody"):
            v = getattr(st, f_, None)
            if isinstance(v, list) and v and isinstance(v[0], ast.stmt):
                setattr(st, f_, iter_next(v))
    i = 0
    while i < len(out):
        st = out[i]
        if isinstance(st, ast.Assign) and len(st.targets) == 1 and _is_name(st.targets[0]) and isinstance(st.value, ast.Call) and _is_name(st.value.func, "iter") and len(st.value.args) == 1 and isinstance(st.value.args[0], ast.Name):
            it, xs = st.targets[0].id, st.value.args[0].id
            rest = out[i + 1:]
            uses = [n for r in rest for n in ast.walk(r) if isinstance(n, ast.Name) and n.id == it]
            nexts = [n for r in rest for n in ast.walk(r) if isinstance(n, ast.Call) and _is_name(n.func, "next") and len(n.args) == 1 and _is_name(n.args[0], it)]
            fors = [r for r in rest if isinstance(r, ast.For) and _is_name(r.iter, it)]
            xs_rebound = any(isinstance(n, ast.Name) and n.id == xs and isinstance(n.ctx, (ast.Store, ast.Del)) for r in rest for n in ast.walk(r))
            if len(nexts) == 1 and len(fors) == 1 and len(uses) == 2 and not xs_rebound:
                nx, fr = nexts[0], fors[0]
                # the next() must come first, at this statement level
                first_stmt = next((r for r in rest if any(n is nx for n in ast.walk(r))), None)
                if first_stmt is not None and rest.index(first_stmt) < rest.index(fr) and not isinstance(first_stmt, (ast.For, ast.While, ast.If, ast.Try, ast.With)):
                    class R(ast.NodeTransformer):
                        def visit_Call(self, n):
                            if n is nx:
                                return ast.copy_location(ast.Subscript(value=ast.Name(id=xs, ctx=ast.Load()), slice=ast.Constant(value=0), ctx=ast.Load()), n)
                            self.generic_visit(n)
                            return n

                    R().visit(first_stmt)
                    fr.iter = ast.copy_location(ast.Subscript(value=ast.Name(id=xs, ctx=ast.Load()), slice=ast.Slice(lower=ast.Constant(value=1), upper=None, step=None), ctx=ast.Load()), fr.iter)
                    ast.fix_missing_locations(first_stmt)
                    ast.fix_missing_locations(fr)
                    del out[i]
                    continue
        i += 1
    return out


# ------------------------------------------------------------------------------------------------ class-based context managers
def with_to_try(idx, mod, fi, stmts, counter):
    """`with C(args) as x: BODY` for a package class C with __enter__/__exit__ (where __exit__ never returns a true value and
    does not look at the exception it is given) -> `__cm = C(args); x = __cm.__enter__(); try: BODY finally: __cm.__exit__(None, None, None)`"""
    out = []
    for st in stmts:
        for f_ in ("body", "orelse", "finalbody"):
            v = getattr(st, f_, None)
            if isinstance(v, list) and v and isinstance(v[0], ast.stmt):
                setattr(st, f_, with_to_try(idx, mod, fi, v, counter))
        for h in getattr(st, "handlers", []) or []:
            h.body = with_to_try(idx, mod, fi, h.body, counter)
        if isinstance(st, ast.With) and len(st.items) == 1 and isinstance(st.items[0].context_expr, ast.Call):
            call = st.items[0].context_expr
            r = None
            try:
                r = idx.resolve(mod, call.func, fi)
            except Exception:
                r = None
            if r and r[0] == "class" and hasattr(r[1], "methods") and "__enter__" in r[1].methods and "__exit__" in r[1].methods:
                ex = r[1].methods["__exit__"].node
                exc_params = {a.arg for a in ex.args.args[1:]}
                rets = [n for n in ast.walk(ex) if isinstance(n, ast.Return) and n.value is not None and not (isinstance(n.value, ast.Constant) and not n.value.value)]
                looks = any(isinstance(n, ast.Name) and n.id in exc_params for n in ast.walk(ex))
                if not rets and not looks and len(exc_params) == 3:
                    counter[0] += 1
                    tmp = "__cm%d" % counter[0]
                    ln = st.lineno
                    mk = ast.Assign(targets=[ast.Name(id=tmp, ctx=ast.Store())], value=call, lineno=ln, col_offset=0)
                    enter = ast.Call(func=ast.Attribute(value=ast.Name(id=tmp, ctx=ast.Load()), attr="__enter__", ctx=ast.Load()), args=[], keywords=[])
                    ent = ast.Assign(targets=[st.items[0].optional_vars], value=enter, lineno=ln, col_offset=0) if st.items[0].optional_vars is not None else ast.Expr(value=enter, lineno=ln, col_offset=0)
                    leave = ast.Expr(value=ast.Call(func=ast.Attribute(value=ast.Name(id=tmp, ctx=ast.Load()), attr="__exit__", ctx=ast.Load()), args=[ast.Constant(value=None)] * 3, keywords=[]), lineno=ln, col_offset=0)
                    tr = ast.Try(body=st.body, handlers=[], orelse=[], finalbody=[leave], lineno=ln, col_offset=0)
                    out.extend([mk, ent, tr])
                    continue
        out.append(st)
    return out


def _sentinels(idx):
    """module-level `S = object()` placeholders used for one attribute only: {(module name, S): attr}.  Every mention of S in the
    repository is its definition, the value of a store `<x>.attr = S` inside an __init__, or an operand of `<x>.attr is [not] S`."""
    memo = getattr(idx, "_sentinel_memo", None)
    if memo is not None:
        return memo
    out = {}
    for m in idx.modules.values():
        for st in m.tree.body:
            if isinstance(st, ast.Assign) and len(st.targets) == 1 and isinstance(st.targets[0], ast.Name) and isinstance(st.value, ast.Call) \
                    and isinstance(st.value.func, ast.Name) and st.value.func.id == "object" and not st.value.args and not st.value.keywords:
                name = st.targets[0].id
                attrs, bad = set(), False
                for m2 in idx.modules.values():
                    allowed = set()
                    in_init = {id(y) for f_ in ast.walk(m2.tree) if isinstance(f_, ast.FunctionDef) and f_.name == "__init__" for y in ast.walk(f_)}
                    for x in ast.walk(m2.tree):
                        if isinstance(x, ast.Assign) and id(x) in in_init and isinstance(x.value, ast.Name) and x.value.id == name and len(x.targets) == 1 and isinstance(x.targets[0], ast.Attribute):
                            allowed.add(id(x.value))
                            attrs.add(x.targets[0].attr)
                        if isinstance(x, ast.Compare) and len(x.ops) == 1 and isinstance(x.ops[0], (ast.Is, ast.IsNot)) and isinstance(x.left, ast.Attribute) \
                                and isinstance(x.comparators[0], ast.Name) and x.comparators[0].id == name:
                            allowed.add(id(x.comparators[0]))
                            attrs.add(x.left.attr)
                    for x in ast.walk(m2.tree):
                        if isinstance(x, ast.Name) and x.id == name and id(x) not in allowed and not (m2 is m and x is st.targets[0]):
                            bad = True
                        if isinstance(x, ast.Attribute) and x.attr == name:
                            bad = True
                        if isinstance(x, ast.alias) and (x.name == name or x.name == "*") and m2 is not m and isinstance(x, ast.alias):
                            pass
                    for x in ast.walk(m2.tree):
                        if isinstance(x, ast.ImportFrom) and any(a.name == name for a in x.names):
                            bad = True
                if not bad and len(attrs) == 1:
                    out[(m.name, name)] = next(iter(attrs))
    idx._sentinel_memo = out
    return out


def sentinel_tests(idx, fi, fn):
    """`self.a is not S` -> True (and `is S` -> False) where S is a one-attribute placeholder (see _sentinels) and every path
    from the function's entry to the test passes a store `self.a = <value not mentioning S>`: the attribute cannot hold S there."""
    sent = {nm: a for (mn, nm), a in _sentinels(idx).items() if mn == fi.module.name}
    if not sent:
        return fn
    sites = [x for x in ast.walk(fn) if isinstance(x, ast.Compare) and len(x.ops) == 1 and isinstance(x.ops[0], (ast.Is, ast.IsNot)) and isinstance(x.left, ast.Attribute)
             and isinstance(x.left.value, ast.Name) and isinstance(x.comparators[0], ast.Name) and sent.get(x.comparators[0].id) == x.left.attr]
    if not sites:
        return fn
    from .cfg import CFG

    try:
        cfg = CFG(fn)
    except Exception:
        return fn
    repl = {}
    for x in sites:
        recv, attr, S = x.left.value.id, x.left.attr, x.comparators[0].id
        at = [n for n in cfg.nodes if isinstance(n.ast, ast.AST) and any(x is y for y in ast.walk(n.ast))]
        at += [n for n in cfg.nodes if isinstance(n.meta.get("value"), ast.AST) and any(x is y for y in ast.walk(n.meta["value"]))]
        stores = {n for n in cfg.nodes if n.kind == "store" and n.meta.get("attr") == attr and isinstance(n.ast, ast.Attribute) and isinstance(n.ast.value, ast.Name) and n.ast.value.id == recv
                  and isinstance(n.meta.get("value"), ast.AST) and not any(isinstance(y, ast.Name) and y.id == S for y in ast.walk(n.meta["value"]))}
        resets = {n for n in cfg.nodes if n.kind == "store" and n.meta.get("attr") == attr and n not in stores}
        if at and stores and not resets and all(cfg.must_pass_through(cfg.entry, n, stores) for n in at):
            repl[id(x)] = ast.Constant(value=isinstance(x.ops[0], ast.IsNot))

    class R(ast.NodeTransformer):
        def visit_Compare(self, n):
            if id(n) in repl:
                return ast.copy_location(repl[id(n)], n)
            return self.generic_visit(n)

    return R().visit(fn) if repl else fn


def prepare(idx, fi, fn):
    """all pre-inlining rewrites on a (deep-copied) function node"""
    mod = fi.module
    fn = sentinel_tests(idx, fi, fn)
    fn = expand_partials(idx, mod, fi, fn)
    fn = _MapFilter(idx, mod, fi).generic_visit(fn)
    fn.body = with_to_try(idx, mod, fi, fn.body, [0])
    fn.body = while_to_for(fn.body)
    fn.body = iter_next(fn.body)
    ast.fix_missing_locations(fn)
    return fn


# ------------------------------------------------------------------------------------------------ append loops
def _subst_line(stmts):
    """substitute straight-line name assignments into the last statement; None when something else is in the way"""
    env = {}

    class S(ast.NodeTransformer):
        def visit_Name(self, n):
            if isinstance(n.ctx, ast.Load) and n.id in env:
                return copy.deepcopy(env[n.id])
            return n

    for i, st in enumerate(stmts[:-1]):
        if not (isinstance(st, ast.Assign) and len(st.targets) == 1 and _is_name(st.targets[0])):
            return None
        computing = any(isinstance(x, (ast.Call, ast.Lambda, ast.ListComp, ast.GeneratorExp, ast.DictComp, ast.SetComp, ast.Yield)) for x in ast.walk(st.value))
        reads = sum(1 for later in stmts[i + 1:] for x in ast.walk(later) if isinstance(x, ast.Name) and x.id == st.targets[0].id and isinstance(x.ctx, ast.Load))
        if computing and reads != 1:
            return None
        env[st.targets[0].id] = S().visit(copy.deepcopy(st.value))
    return S().visit(copy.deepcopy(stmts[-1]))


def _append_value(st, name):
    """the appended expression when `st` is `name.append(e)`, also under if / if-else (as a conditional expression)"""
    if isinstance(st, ast.Expr) and isinstance(st.value, ast.Call) and isinstance(st.value.func, ast.Attribute) and st.value.func.attr == "append" and _is_name(st.value.func.value, name) and len(st.value.args) == 1 and not st.value.keywords:
        return st.value.args[0], None
    if isinstance(st, ast.If) and len(st.body) == 1 and len(st.orelse) == 1:
        a, ca = _append_value(st.body[0], name)
        b, cb = _append_value(st.orelse[0], name)
        if a is not None and b is not None and ca is None and cb is None:
            return ast.IfExp(test=st.test, body=a, orelse=b), None
    if isinstance(st, ast.If) and len(st.body) == 1 and not st.orelse:
        a, ca = _append_value(st.body[0], name)
        if a is not None and ca is None:
            return a, st.test
    return None, None


def append_loops(stmts):
    """`X = []` ... `for T in IT: [t = ...;] X.append(E)`  ->  `X = [E for T in IT]` (also with one `if c:` around the append, or an
    if/else appending on both sides); X must not be touched between its creation and the loop nor elsewhere in the body"""
    out = list(stmts)
    for st in out:
        for f_ in ("body", "orelse", "finalbody"):
            v = getattr(st, f_, None)
            if isinstance(v, list) and v and isinstance(v[0], ast.stmt):
                setattr(st, f_, append_loops(v))
        for h in getattr(st, "handlers", []) or []:
            h.body = append_loops(h.body)
    i = 0
    while i < len(out):
        st = out[i]
        if isinstance(st, ast.Assign) and len(st.targets) == 1 and _is_name(st.targets[0]) and isinstance(st.value, ast.List) and not any(isinstance(e, ast.Starred) for e in st.value.elts):
            name = st.targets[0].id
            initial = st.value.elts
            j = i + 1
            while j < len(out) and not any(isinstance(x, ast.Name) and x.id == name for x in ast.walk(out[j])):
                j += 1
            if j < len(out) and isinstance(out[j], ast.For) and not out[j].orelse and isinstance(out[j].target, (ast.Name, ast.Tuple)):
                lp = out[j]
                if not any(isinstance(x, (ast.Break, ast.Continue, ast.Return, ast.Yield)) for b in lp.body for x in ast.walk(b)):
                    last = _subst_line(lp.body) if len(lp.body) > 1 else lp.body[0]
                    if last is not None:
                        val, cond = _append_value(last, name)
                        uses_elsewhere = any(isinstance(x, ast.Name) and x.id == name for x in ast.walk(lp.iter))
                        n_uses = sum(1 for b in lp.body for x in ast.walk(b) if isinstance(x, ast.Name) and x.id == name)
                        if val is not None and not uses_elsewhere and n_uses == (2 if isinstance(last, ast.If) and last.orelse else 1):
                            comp = ast.ListComp(elt=val, generators=[ast.comprehension(target=lp.target, iter=lp.iter, ifs=[cond] if cond is not None else [], is_async=0)])
                            between = out[i + 1:j]
                            pre = []
                            value = comp
                            if initial:
                                # `X = [E(xs[0])]` then appends of E(a) over xs[1:]: the list of E over all of xs; the head access stays
                                # (it is what fails on an empty xs).  Any other non-empty start: the concatenation.
                                xs = _peeled(lp.iter, initial, lp.target, val) if cond is None and _pure_expr(val) else None
                                stored_between = set()
                                for b_ in between:
                                    stored_between |= _names(b_, (ast.Store, ast.Del))
                                if xs is not None and xs not in stored_between and not ((_names(val) - _names(lp.target)) & stored_between):
                                    comp.generators[0].iter = ast.Name(id=xs, ctx=ast.Load())
                                    pre = [ast.Expr(value=ast.Subscript(value=ast.Name(id=xs, ctx=ast.Load()), slice=ast.Constant(value=0), ctx=ast.Load()), lineno=st.lineno, col_offset=0)]
                                elif all(_pure_expr(e_) and not (_names(e_) & stored_between) for e_ in initial) and not between:
                                    value = ast.BinOp(left=ast.List(elts=list(initial), ctx=ast.Load()), op=ast.Add(), right=comp)
                                else:
                                    i += 1
                                    continue
                            new = ast.Assign(targets=[ast.Name(id=name, ctx=ast.Store())], value=value, lineno=lp.lineno, col_offset=0)
                            for p_ in pre:
                                ast.fix_missing_locations(p_)
                            ast.fix_missing_locations(new)
                            out[i:j + 1] = pre + between + [new]
                            continue
        i += 1
    return out


# ------------------------------------------------------------------------------------------------ loop fission
_PURE_ROOTS = ("numpy", "np", "math")
_PURE_NAMES = ("make_masked", "len", "float", "int", "abs", "min", "max", "list", "tuple")


def _pure_expr(e):
    """no call other than numpy / math functions and a few builtins; no lambda, comprehension or yield"""
    for x in ast.walk(e):
        if isinstance(x, (ast.Lambda, ast.ListComp, ast.GeneratorExp, ast.DictComp, ast.SetComp, ast.Yield, ast.YieldFrom, ast.Await, ast.NamedExpr)):
            return False
        if isinstance(x, ast.Call):
            f = x.func
            while isinstance(f, ast.Attribute):
                f = f.value
            if not (isinstance(f, ast.Name) and (f.id in _PURE_ROOTS if isinstance(x.func, ast.Attribute) else f.id in _PURE_NAMES)):
                return False
    return True


def _names(e, ctx=None):
    return {x.id for x in ast.walk(e) if isinstance(x, ast.Name) and (ctx is None or isinstance(x.ctx, ctx))}


def loop_fission(stmts):
    """`for T in IT: S1..; X.append(E); ..Sn` -> `for T in IT: S1..Sn` followed by `for T in IT: X.append(E)`, when the append is
    independent of the other statements: E is pure and reads nothing they store, X is mentioned nowhere else in the loop, IT is a
    pure expression over names the loop does not store, and the loop has no break / continue / return / yield / else."""
    out = []
    for st in stmts:
        for f_ in ("body", "orelse", "finalbody"):
            v = getattr(st, f_, None)
            if isinstance(v, list) and v and isinstance(v[0], ast.stmt):
                setattr(st, f_, loop_fission(v))
        for h in getattr(st, "handlers", []) or []:
            h.body = loop_fission(h.body)
        done = False
        if isinstance(st, ast.For) and not st.orelse and len(st.body) >= 2 and isinstance(st.target, (ast.Name, ast.Tuple)) and _pure_expr(st.iter):
            if not any(isinstance(x, (ast.Break, ast.Continue, ast.Return, ast.Yield, ast.YieldFrom, ast.Raise, ast.Try, ast.With)) for b in st.body for x in ast.walk(b)):
                for k, b in enumerate(st.body):
                    if not (isinstance(b, ast.Expr) and isinstance(b.value, ast.Call) and isinstance(b.value.func, ast.Attribute) and b.value.func.attr == "append" and isinstance(b.value.func.value, ast.Name) and len(b.value.args) == 1 and not b.value.keywords):
                        continue
                    x = b.value.func.value.id
                    e = b.value.args[0]
                    rest = st.body[:k] + st.body[k + 1:]
                    stored = set()
                    for r in rest:
                        stored |= _names(r, (ast.Store, ast.Del))
                    mentioned = set()
                    for r in rest:
                        mentioned |= _names(r)
                    tnames = _names(st.target)
                    if x in mentioned or x in _names(st.iter) or x in tnames or x in _names(e):
                        continue
                    if not _pure_expr(e) or (_names(e) & stored) or (_names(st.iter) & (stored | tnames)) or (tnames & stored):
                        continue
                    # the other statements must not mutate what E or IT read through a method call or a subscript store
                    touched = set()
                    for r in rest:
                        for y in ast.walk(r):
                            if isinstance(y, (ast.Subscript, ast.Attribute)) and isinstance(y.ctx, (ast.Store, ast.Del)):
                                touched |= _names(y.value)
                            if isinstance(y, ast.Call) and isinstance(y.func, ast.Attribute) and not _pure_expr(y):
                                touched |= _names(y.func.value)
                    if touched & (_names(e) | _names(st.iter)):
                        continue
                    first = ast.For(target=copy.deepcopy(st.target), iter=copy.deepcopy(st.iter), body=rest, orelse=[], lineno=st.lineno, col_offset=st.col_offset)
                    second = ast.For(target=copy.deepcopy(st.target), iter=copy.deepcopy(st.iter), body=[b], orelse=[], lineno=st.lineno, col_offset=st.col_offset)
                    ast.fix_missing_locations(first)
                    ast.fix_missing_locations(second)
                    out.extend(loop_fission([first]))
                    out.append(second)
                    done = True
                    break
        if not done:
            out.append(st)
    return out


def _peeled(iter_, first_args, target, elt):
    """`xs` when the loop runs over `xs[1:]` and every initial element is the loop's element expression at `xs[0]`"""
    if not (isinstance(iter_, ast.Subscript) and isinstance(iter_.slice, ast.Slice) and iter_.slice.upper is None and iter_.slice.step is None and isinstance(iter_.slice.lower, ast.Constant) and iter_.slice.lower.value == 1 and isinstance(iter_.value, ast.Name)):
        return None
    if len(first_args) != 1 or not isinstance(target, ast.Name):
        return None
    xs = iter_.value.id
    head = ast.Subscript(value=ast.Name(id=xs, ctx=ast.Load()), slice=ast.Constant(value=0), ctx=ast.Load())

    class S(ast.NodeTransformer):
        def visit_Name(self, n):
            if n.id == target.id and isinstance(n.ctx, ast.Load):
                return copy.deepcopy(head)
            return n

    if ast.dump(S().visit(copy.deepcopy(elt))) == ast.dump(first_args[0]):
        return xs
    return None


# ------------------------------------------------------------------------------------------------ small constant loops
def _tail_continue_to_pass(body):
    """a `continue` that is the last thing an iteration would do anyway (last statement of the body, of the handlers / branches of
    a last try / if) is a `pass`"""
    if not body:
        return body
    last = body[-1]
    if isinstance(last, ast.Continue):
        body[-1] = ast.copy_location(ast.Pass(), last)
    elif isinstance(last, ast.If):
        last.body = _tail_continue_to_pass(last.body)
        last.orelse = _tail_continue_to_pass(last.orelse)
    elif isinstance(last, ast.Try) and not last.finalbody:
        last.orelse = _tail_continue_to_pass(last.orelse) if last.orelse else last.orelse
        if not last.orelse:
            last.body = _tail_continue_to_pass(last.body)
        for h in last.handlers:
            h.body = _tail_continue_to_pass(h.body)
    return body


def unroll_const_loops(idx, mod, fi, stmts):
    """`for v in ("a", "b"): [if C: break] BODY` over a constant tuple of at most four scalars -> BODY once per item, each later
    copy nested under `if not C:` when the loop starts with `if C: break` (no other break/continue, no else clause)"""
    out = []
    for st in stmts:
        for f_ in ("body", "orelse", "finalbody"):
            v = getattr(st, f_, None)
            if isinstance(v, list) and v and isinstance(v[0], ast.stmt):
                setattr(st, f_, unroll_const_loops(idx, mod, fi, v))
        for h in getattr(st, "handlers", []) or []:
            h.body = unroll_const_loops(idx, mod, fi, h.body)
        if isinstance(st, ast.For) and not st.orelse and _is_name(st.target):
            try:
                items = idx.const(mod, st.iter, fi)
            except Exception:
                items = None
            names_only = isinstance(st.iter, (ast.Tuple, ast.List)) and 0 < len(st.iter.elts) <= 4 and all(isinstance(x, ast.Name) and x.id in ("int", "float", "str", "bool", "complex") for x in st.iter.elts)
            if names_only:
                items = [x.id for x in st.iter.elts]
            if isinstance(items, (tuple, list)) and 0 < len(items) <= 4 and all(isinstance(x, (str, int, float, bool)) or x is None for x in items):
                body = _tail_continue_to_pass(copy.deepcopy(st.body))
                guard = None
                if body and isinstance(body[0], ast.If) and not body[0].orelse and len(body[0].body) == 1 and isinstance(body[0].body[0], ast.Break):
                    guard = body[0].test
                    body = body[1:]
                if body and not any(isinstance(x, (ast.Break, ast.Continue)) for b in body for x in ast.walk(b)) and not (guard is not None and any(isinstance(x, ast.Name) and x.id == st.target.id for x in ast.walk(guard))):
                    var = st.target.id

                    def inst(val):
                        class S(ast.NodeTransformer):
                            def visit_Name(self, n):
                                if n.id == var and isinstance(n.ctx, ast.Load):
                                    if names_only:
                                        return ast.copy_location(ast.Name(id=val, ctx=ast.Load()), n)  # a builtin type named in the tuple
                                    return ast.copy_location(ast.Constant(value=val), n)
                                return n

                        return [S().visit(copy.deepcopy(b)) for b in body]

                    acc = []
                    for val in reversed(items):
                        block = inst(val) + acc
                        if guard is not None:
                            block = [ast.If(test=ast.UnaryOp(op=ast.Not(), operand=copy.deepcopy(guard)), body=block, orelse=[], lineno=st.lineno, col_offset=0)]
                        acc = block
                    for b in acc:
                        ast.fix_missing_locations(b)
                    out.extend(acc)
                    continue
        out.append(st)
    return out


def or_assignments(stmts):
    """`if not x: x = E` -> `x = x or E` (the same value, as one expression the rules can read)"""
    out = []
    for st in stmts:
        for f_ in ("body", "orelse", "finalbody"):
            v = getattr(st, f_, None)
            if isinstance(v, list) and v and isinstance(v[0], ast.stmt):
                setattr(st, f_, or_assignments(v))
        if isinstance(st, ast.If) and not st.orelse and isinstance(st.test, ast.UnaryOp) and isinstance(st.test.op, ast.Not) and _is_name(st.test.operand):
            x = st.test.operand.id
            body = st.body
            if body and isinstance(body[0], ast.Assign) and len(body[0].targets) == 1 and _is_name(body[0].targets[0], x):
                first = ast.Assign(targets=[ast.Name(id=x, ctx=ast.Store())], value=ast.BoolOp(op=ast.Or(), values=[ast.Name(id=x, ctx=ast.Load()), body[0].value]), lineno=st.lineno, col_offset=0)
                ast.fix_missing_locations(first)
                rest = body[1:]
                if not rest:
                    out.append(first)
                    continue
                # `if not x: x = E; REST`  with REST itself only of this shape -> x = x or E; REST' (REST ran only when x was false
                # before; when x was already true each of its steps `x = x or ...` leaves x unchanged, so running it always is the same)
                rest2 = or_assignments(rest)
                if all(isinstance(r, ast.Assign) and len(r.targets) == 1 and _is_name(r.targets[0], x) and isinstance(r.value, ast.BoolOp) and isinstance(r.value.op, ast.Or) and _is_name(r.value.values[0], x) for r in rest2):
                    out.append(first)
                    out.extend(rest2)
                    continue
        out.append(st)
    return out


class _BoolForms(ast.NodeTransformer):
    """`not all(P for ..)` -> `any(not P for ..)`, `not any(..)` -> `all(not ..)`, `not (a not in b)` -> `a in b` (and the other
    negatable single comparisons: in / not in, == / !=, is / is not)"""

    FLIP = {ast.In: ast.NotIn, ast.NotIn: ast.In, ast.Eq: ast.NotEq, ast.NotEq: ast.Eq, ast.Is: ast.IsNot, ast.IsNot: ast.Is}

    def negate(self, e):
        if isinstance(e, ast.Compare) and len(e.ops) == 1 and type(e.ops[0]) in self.FLIP:
            return ast.copy_location(ast.Compare(left=e.left, ops=[self.FLIP[type(e.ops[0])]()], comparators=e.comparators), e)
        if isinstance(e, ast.UnaryOp) and isinstance(e.op, ast.Not):
            return e.operand
        return None

    def visit_UnaryOp(self, node):
        self.generic_visit(node)
        if not isinstance(node.op, ast.Not):
            return node
        x = node.operand
        if isinstance(x, ast.Call) and isinstance(x.func, ast.Name) and x.func.id in ("all", "any") and len(x.args) == 1 and not x.keywords and isinstance(x.args[0], (ast.GeneratorExp, ast.ListComp)):
            neg = self.negate(x.args[0].elt)
            if neg is not None:
                comp = type(x.args[0])(elt=neg, generators=x.args[0].generators)
                return ast.copy_location(ast.Call(func=ast.Name(id="any" if x.func.id == "all" else "all", ctx=ast.Load()), args=[ast.copy_location(comp, x.args[0])], keywords=[]), node)
        if isinstance(x, ast.Compare):
            neg = self.negate(x)
            if neg is not None:
                return neg
        return node


class _ShapeCalls(ast.NodeTransformer):
    """numpy.shape(x) / numpy.ndim(x) / numpy.size(x) on a plain name -> x.shape / x.ndim / x.size (what they return for an array)"""

    def __init__(self, idx, mod, fi):
        self.idx, self.mod, self.fi = idx, mod, fi

    def visit_Call(self, n):
        self.generic_visit(n)
        if len(n.args) == 1 and not n.keywords and isinstance(n.args[0], ast.Name) and isinstance(n.func, (ast.Name, ast.Attribute)):
            q = self.idx.qualname(self.mod, n.func, self.fi)
            if q in ("numpy.shape", "numpy.ndim", "numpy.size", "numpy.ma.shape", "numpy.ma.ndim", "numpy.ma.size"):
                return ast.copy_location(ast.Attribute(value=n.args[0], attr=q.split(".")[-1], ctx=ast.Load()), n)
        return n


def syntactic(idx, fi, fn):
    """the expression-level rewrites alone (safe to repeat after inlining)"""
    fn = _MapFilter(idx, fi.module, fi).generic_visit(fn)
    fn = _ShapeCalls(idx, fi.module, fi).generic_visit(fn)
    fn = _BoolForms().generic_visit(fn)
    ast.fix_missing_locations(fn)
    return fn
