"""Engine E, part 1: regular-language reasoning on the lexer's token patterns.

regex (via re._parser) -> NFA -> DFA over an exact finite partition of the alphabet:
every ASCII character is its own atom, non-ASCII characters form four atoms (decimal digit, letter, whitespace, other).
Decides emptiness, inclusion, intersection and 'can a match contain atom c', each with a shortest witness string.
"""
import re._constants as sc
import re._parser as sp
from collections import deque

from .report import AnalysisError

ASCII = [chr(i) for i in range(128)]
UNI = {"Ud": "\u0663", "Ul": "\u00e9", "Us": "\u2003", "Uo": "\u20ac"}
ATOMS = ASCII + list(UNI)
REP = {a: (a if len(a) == 1 else UNI[a]) for a in ATOMS}


def atom_of(ch):
    if ord(ch) < 128:
        return ch
    if ch.isdecimal():
        return "Ud"
    if ch.isalpha():
        return "Ul"
    if ch.isspace():
        return "Us"
    return "Uo"


def _in_category(cat, atom):
    ch = REP[atom]
    if cat is sc.CATEGORY_DIGIT:
        return ch.isdecimal()
    if cat is sc.CATEGORY_NOT_DIGIT:
        return not ch.isdecimal()
    if cat is sc.CATEGORY_SPACE:
        return ch.isspace()
    if cat is sc.CATEGORY_NOT_SPACE:
        return not ch.isspace()
    if cat is sc.CATEGORY_WORD:
        return ch.isalnum() or ch == "_"
    if cat is sc.CATEGORY_NOT_WORD:
        return not (ch.isalnum() or ch == "_")
    raise AnalysisError("regex category %s is outside the analyser's vocabulary" % cat)


def _member(items, atom):
    neg = False
    hit = False
    ch = REP[atom]
    for op, av in items:
        if op is sc.NEGATE:
            neg = True
        elif op is sc.LITERAL:
            if av < 128:
                hit |= atom == chr(av)
            else:
                raise AnalysisError("non-ASCII literal in a character class is outside the analyser's alphabet partition")
        elif op is sc.RANGE:
            lo, hi = av
            if hi < 128:
                hit |= len(atom) == 1 and lo <= ord(atom) <= hi
            elif lo <= 128 and hi >= 0x10FFFF:
                hit |= len(atom) > 1 or ord(atom) >= lo
            else:
                raise AnalysisError("character range reaching into non-ASCII is outside the analyser's alphabet partition")
        elif op is sc.CATEGORY:
            hit |= _in_category(av, atom)
        else:
            raise AnalysisError("regex set item %s is outside the analyser's vocabulary" % (op,))
    return hit != neg


class _NFA(object):
    def __init__(self):
        self.n = 0
        self.eps = {}
        self.tr = {}

    def new(self):
        self.n += 1
        return self.n - 1

    def e(self, a, b):
        self.eps.setdefault(a, set()).add(b)

    def t(self, a, k, b):
        self.tr.setdefault((a, k), set()).add(b)


def _build(nfa, items, start, flags):
    cur = start
    for op, av in items:
        nxt = nfa.new()
        if op is sc.LITERAL:
            ch = chr(av)
            nfa.t(cur, atom_of(ch), nxt)
            if ord(ch) >= 128:
                raise AnalysisError("non-ASCII literal in a token pattern")
        elif op is sc.NOT_LITERAL:
            for k in ATOMS:
                if k != atom_of(chr(av)):
                    nfa.t(cur, k, nxt)
        elif op is sc.ANY:
            for k in ATOMS:
                if k != "\n" or (flags & 16):
                    nfa.t(cur, k, nxt)
        elif op is sc.IN:
            for k in ATOMS:
                if _member(av, k):
                    nfa.t(cur, k, nxt)
        elif op is sc.CATEGORY:
            for k in ATOMS:
                if _in_category(av, k):
                    nfa.t(cur, k, nxt)
        elif op is sc.SUBPATTERN:
            end = _build(nfa, av[3], cur, flags)
            nfa.e(end, nxt)
        elif op is sc.BRANCH:
            for alt in av[1]:
                s = nfa.new()
                nfa.e(cur, s)
                end = _build(nfa, alt, s, flags)
                nfa.e(end, nxt)
        elif op in (sc.MAX_REPEAT, sc.MIN_REPEAT):
            lo, hi, sub = av
            c = cur
            for _ in range(lo):
                c = _build(nfa, sub, c, flags)
            if hi is sc.MAXREPEAT:
                loop = nfa.new()
                nfa.e(c, loop)
                end = _build(nfa, sub, loop, flags)
                nfa.e(end, loop)
                nfa.e(loop, nxt)
            else:
                nfa.e(c, nxt)
                for _ in range(hi - lo):
                    c2 = _build(nfa, sub, c, flags)
                    nfa.e(c2, nxt)
                    c = c2
        else:
            raise AnalysisError("regex construct %s is outside the analyser's vocabulary" % (op,))
        cur = nxt
    return cur


class DFA(object):
    def __init__(self, start, acc, tr, n, pattern=None):
        self.start = start
        self.acc = acc
        self.tr = tr
        self.n = n
        self.pattern = pattern


def dfa(pattern):
    try:
        parsed = sp.parse(pattern)
    except Exception as ex:
        raise AnalysisError("cannot parse token pattern %r: %s" % (pattern, ex))
    flags = parsed.state.flags
    nfa = _NFA()
    s = nfa.new()
    end = _build(nfa, list(parsed), s, flags)

    def close(S):
        S = set(S)
        st = list(S)
        while st:
            x = st.pop()
            for y in nfa.eps.get(x, ()):
                if y not in S:
                    S.add(y)
                    st.append(y)
        return frozenset(S)

    start = close({s})
    states = {start: 0}
    trans = {}
    acc = set()
    work = [start]
    while work:
        S = work.pop()
        if end in S:
            acc.add(states[S])
        for k in ATOMS:
            T = set()
            for x in S:
                T |= nfa.tr.get((x, k), set())
            if not T:
                continue
            T = close(T)
            if T not in states:
                states[T] = len(states)
                work.append(T)
            trans[(states[S], k)] = states[T]
    return DFA(0, acc, trans, len(states), pattern)


def not_included(A, B):
    """shortest string in L(A) \\ L(B), or None when L(A) ⊆ L(B)"""
    q = deque([((A.start, B.start), "")])
    seen = {(A.start, B.start)}
    while q:
        (a, b), w = q.popleft()
        if a in A.acc and (b is None or b not in B.acc):
            return w
        for k in ATOMS:
            a2 = A.tr.get((a, k))
            if a2 is None:
                continue
            b2 = B.tr.get((b, k)) if b is not None else None
            if (a2, b2) not in seen:
                seen.add((a2, b2))
                q.append(((a2, b2), w + REP[k]))
    return None


def intersection(A, B):
    """shortest string in L(A) ∩ L(B), or None"""
    q = deque([((A.start, B.start), "")])
    seen = {(A.start, B.start)}
    while q:
        (a, b), w = q.popleft()
        if a in A.acc and b in B.acc:
            return w
        for k in ATOMS:
            a2 = A.tr.get((a, k))
            b2 = B.tr.get((b, k))
            if a2 is None or b2 is None:
                continue
            if (a2, b2) not in seen:
                seen.add((a2, b2))
                q.append(((a2, b2), w + REP[k]))
    return None


def contains(A, atoms):
    """shortest string of L(A) that contains one of `atoms`, or None"""
    atoms = set(atoms)
    q = deque([((A.start, False), "")])
    seen = {(A.start, False)}
    while q:
        (a, f), w = q.popleft()
        if a in A.acc and f:
            return w
        for k in ATOMS:
            a2 = A.tr.get((a, k))
            if a2 is None:
                continue
            st = (a2, f or k in atoms)
            if st not in seen:
                seen.add(st)
                q.append((st, w + REP[k]))
    return None


def accepts(A, text):
    """does the DFA accept exactly this string?"""
    q = A.start
    for ch in text:
        q = A.tr.get((q, atom_of(ch)))
        if q is None:
            return False
    return q in A.acc


# Python >= 3.11: int(str) refuses more than sys.int_max_str_digits (default 4300) digits with ValueError
INT_MAX_STR_DIGITS = 4300


def shortest(A):
    q = deque([(A.start, "")])
    seen = {A.start}
    while q:
        a, w = q.popleft()
        if a in A.acc:
            return w
        for k in ATOMS:
            a2 = A.tr.get((a, k))
            if a2 is not None and a2 not in seen:
                seen.add(a2)
                q.append((a2, w + REP[k]))
    return None


def first_atoms(A):
    return {k for k in ATOMS if (A.start, k) in A.tr}


# ---- reference languages fixed by Python, not by mpilot ------------------------------------------------------------
WS = r"[ \t\n\r\x0b\x0c]*"
L_INT_BUILTIN = WS + r"[+\-]?\d(_?\d)*" + WS
L_FLOAT_BUILTIN = WS + r"[+\-]?((\d(_?\d)*(\.(\d(_?\d)*)?)?|\.\d(_?\d)*)([eE][+\-]?\d(_?\d)*)?|[iI][nN][fF]([iI][nN][iI][tT][yY])?|[nN][aA][nN])" + WS
L_REPR_INT = r"-?[0-9]+"
L_REPR_FLOAT = r"-?([0-9]+\.[0-9]+|[0-9](\.[0-9]+)?e[+\-][0-9][0-9]+|inf|nan)"
