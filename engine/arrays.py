"""Engine C: abstract interpreter for the array code of `execute` bodies and their helpers.

Part 1: abstract values.  (numpy facts encoded here are listed in engine/numpy_axioms.md.)
"""
import ast
import re
from dataclasses import dataclass, replace

from .report import AnalysisError

E = frozenset()
RANK = {"b": 0, "i": 1, "f": 2}
F_ = frozenset("f")
I_ = frozenset("i")
B_ = frozenset("b")
IF_ = frozenset("if")


class Unsupported(AnalysisError):
    pass


@dataclass(frozen=True)
class Arr:
    kind: str = "masked"  # masked | plain | unknown
    isbool: bool = False
    alias: frozenset = E  # input tokens / fresh@n this value may share storage with
    M: frozenset = E  # inputs whose mask is guaranteed to be covered by this value's mask
    D: frozenset = E  # inputs whose cell values flow into this value
    Pc: frozenset = E  # inputs whose hidden (masked) data may reach this value cell-wise
    Pg: frozenset = E  # ... through a whole-array reduction
    shape: str = "same"  # same | stacked | flat | rankdep | unknown
    dt: frozenset = F_
    dtprov: frozenset = E
    rng: tuple = (None, None)  # (lo, hi) bounds established by a clamp; entries are constants or symbols
    sel: object = None  # layer selection after an ascending sort on axis 0
    sorted0: bool = False  # stacked value sorted ascending along the layer axis
    filearr: bool = False
    cmp: object = None  # for boolean results of `x <op> s`: (alias of x, op name, scalar identity)
    maskof: frozenset = E  # for `.mask` views: alias of the array it is the mask of
    dataof: frozenset = E  # for `.data` views: alias of the array it is the data of
    constmask: bool = False  # mask built from a constant
    layermask: bool = False  # stacked value whose mask differs per layer (each layer keeps its own input's mask)
    unguarded: frozenset = E  # layer selections whose (selection - FUZZY_MIN) divides this value without a guarding where()
    maskalias: frozenset = E  # inputs whose mask buffer this value's mask may share (numpy.ma.array(x, mask=m) does not copy m)
    validof: frozenset = E  # boolean array that is the negation of these values' masks: true exactly at their valid cells
    hardmask: bool = False  # harden_mask() in force: item stores cannot uncover missing cells (A26)
    filledwith: object = None  # plain result of x.filled(v): (mask coverage of x, source text of v)
    validM: frozenset = E  # boolean array that is false wherever these inputs are missing (a masked comparison filled with False)
    ascending: bool = False  # a 1-D collection of values known to be in ascending order (sorted in place, or built from a sorted list)
    freshmask: bool = False  # a boolean array newly computed from masks (logical_or(m1, m2), a layer-axis any()): describes masks, shares no buffer with them
    ownmask: bool = False  # a MaskedArray by construction (numpy.ma.array(...) and friends), not merely an input assumed to be one
    keeps: object = None  # (op, scalar identity, alias of the population): exactly the cells of that population with `cell <op> scalar` are present here


@dataclass(frozen=True)
class Scal:
    D: frozenset = E
    Pg: frozenset = E
    dt: frozenset = IF_
    const: object = None
    sym: str = None  # symbolic identity (e.g. "kw:NumberToConsider", "-kw:NumberToConsider")
    masked_const_possible: bool = False
    nonfinite: bool = False  # a python/numpy scalar quotient whose divisor depends on the data (may be 0: inf or nan, no mask)
    rng: tuple = (None, None)  # (lo, hi) bounds established by min(max(x, lo), hi) with constant bounds


@dataclass(frozen=True)
class Cmd:
    p: str
    part: str = None  # None for a direct input; all|first|rest for an element of a list input


@dataclass(frozen=True)
class Lst:
    what: str  # cmds | arrs | masks | nums | pairs | mixed | zip | enum | range | opaque | shape
    L: str = None
    part: str = "all"
    elem: object = None
    sorted_: bool = False
    srcs: tuple = ()
    items: tuple = None
    zipped: tuple = ()
    sliced: object = None  # for nums: (lo, hi) constant slice applied
    argobj: str = None  # the very list object passed for this parameter (not a copy): mutating it changes the caller's value
    isiter: bool = False  # an iterator over the list (iter(xs)): next() consumes from the front, the source list is untouched
    oneshot: bool = False  # built by a generator expression: whatever walks it once leaves nothing (or a rest) for the next reader


@dataclass(frozen=True)
class Other:
    tag: str
    info: object = None


# one-argument element-wise functions (axiom A25): the result has the operand's shape, each cell depends on that cell only, a masked
# operand keeps its mask (the numpy.ma forms of the domain-limited ones can only add missing cells)
FLOAT_UFUNCS = frozenset("sqrt cbrt exp exp2 expm1 log log2 log10 log1p sin cos tan arcsin arccos arctan sinh cosh tanh arcsinh arccosh arctanh deg2rad rad2deg degrees radians fabs".split())
UNARY_UFUNCS = FLOAT_UFUNCS | frozenset("abs absolute negative positive rint round round_ around floor ceil trunc sign square reciprocal conjugate".split())


_NEG = {"LtE": "Gt", "Lt": "GtE", "Gt": "LtE", "GtE": "Lt", "Eq": "NotEq", "NotEq": "Eq", "Finite": "NotFinite", "NotFinite": "Finite"}


def negate_cmp(c):
    """the comparison recorded on a boolean array, negated (NaN cells aside)"""
    if c is None or c[1] not in _NEG:
        return None
    return (c[0], _NEG[c[1]]) + tuple(c[2:])


class Kw(object):
    """abstract **kwargs dictionary (mutable, copied at branches)"""

    def __init__(self, d=None, optional=None, table=False):
        self.d = dict(d or {})
        self.optional = set(optional or ())
        self.table = table  # a dict literal (lookup table), not the command's keyword arguments

    def copy(self):
        return Kw(self.d, self.optional, self.table)


def toks(L, part):
    if part == "all":
        return frozenset({L + "#0", L + "#r"})
    return frozenset({L + ("#0" if part == "first" else "#r")})


def is_input_token(t):
    return not t.startswith("fresh@") and not t.startswith("@") and t not in ("file", "param", "ELEM")  # "@name": a numeric argument


def promote(a, b):
    return frozenset(max(x, y, key=RANK.get) for x in a for y in b)


def scal_id(s):
    if isinstance(s, Scal):
        if s.const is not None:
            return ("c", s.const)
        if s.sym is not None:
            return ("s", s.sym)
    return None


# =====================================================================================================
# Part 2: interpreter — frames, statements
# =====================================================================================================
import os as _os

_TRACE = bool(_os.environ.get("VERIF_ENGINE_TRACE"))  # debugging aid for the maintainer of the analyser: prints every local binding


class Frame(object):
    def __init__(self, module, func, cls, env, depth=0):
        self.module = module
        self.func = func
        self.cls = cls
        self.env = env
        self.returns = []
        self.depth = depth
        a = func.node.args.args if func is not None else []
        self.selfname = a[0].arg if (a and func is not None and func.cls is not None and func.kind != "staticmethod") else None


class Write(object):
    def __init__(self, line, what, alias, node, func, via=None):
        self.line = line
        self.what = what
        self.alias = alias
        self.node = node
        self.func = func
        self.via = via  # call site in the execute body when the write happens inside an inlined helper


class Result(object):
    def __init__(self, decl):
        self.decl = decl
        self.returns = []  # (stmt, value, funckey) of the effective execute only
        self.writes = []
        self.findings = []  # (kind, line, msg, funckey)
        self.pulled = set()
        self.divisions = []  # (line, left, right, node, funckey)
        self.div_results = {}  # id(division call node) -> alias of the quotient
        self.finite_masked = []  # aliases of arrays wrapped as masked arrays whose mask includes ~isfinite(of themselves)
        self.kwreads = []  # (key, how, node, funckey, default-node)
        self.calls = []  # (qual, node, funckey)
        self.ncstores = []  # (line, value)
        self.selfreads = []
        self.selfstores = []
        self.effects = []  # (kind, line, text, funckey)
        self.clamps = []  # (call node, lo, hi, funckey, ok)
        self.validates = []  # (line, arg value, node)
        self.truths = []
        self.super_calls = []  # (node, kwargs Kw snapshot, funckey)
        self.soft_undecided = []  # reasons why what was computed for this command is not to be trusted as a verdict (reported only when no rule found a violation)
        self.cond_deps = {}  # id(test node of an `if`) -> inputs its value was computed from
        self.fresh_executes = []  # (node, class, funckey): <Command subclass>(...).execute(...) evaluated on the spot
        self.scaldivs = []  # scalar / scalar divisions: (line, dividend, divisor, node, funckey)
        self.return_conds = {}  # id(return stmt) -> branch conditions under which it was reached
        self.half_stats = []  # (node, statistic, (op, scalar identity, population alias), funckey): a statistic over the cells on one side of a scalar
        self.maskstores = []  # (line, target Arr, value, node, funckey)
        self.layer_reads = []  # (node, sel, sorted?, funckey)
        self.layer_reduces = []  # (node, sel of the reduced value, method, funckey)
        self.wheres = []  # (node, cond, a, b, funckey)
        self.zips = []  # (node, zipped values, funckey)
        self.layer_reduce_kind = {}  # id(node) -> "masked" | "plain": what the reduction along the layer axis was applied to
        self.intops = []  # (node, grid, scalar, funckey): grid (+ - *) scalar where neither is known to be floating
        self.selstores = []  # (target node, comparison behind the boolean index or None, index value, stored value, funckey)
        self.weight_pairs = []  # (node, array tokens, scalar sym, funckey)
        self.sorteds = []  # (node, argument value, funckey)
        self.reduces = []  # (node, callee description, seq, init, funckey)
        self.binops = []  # (node, op name, left D, right D, funckey) for array-array operators
        self.unsupported = None


def _copy_env(env):
    out = {}
    for k, v in env.items():
        if isinstance(v, Kw):
            out[k] = v.copy()
            if getattr(v, "static", None):
                out[k].static = v.static  # a branch copy of the analysis state still stands for the same shared object
        else:
            out[k] = v
    return out


class Interp(object):
    MAX_DEPTH = 4

    def __init__(self, idx, decl, fold=None):
        self.idx = idx
        self.decl = decl
        self.res = Result(decl)
        self.fresh = 0
        self.inline_via = []
        self.fold = fold
        self.cond_stack = []
        self.loop_stack = []

    # ---------------------------------------------------------------- bookkeeping
    def site(self, node):
        self.fresh += 1
        return "fresh@%s:%s#%d" % (getattr(node, "lineno", "?"), getattr(node, "col_offset", "?"), self.fresh)

    def S(self, node):
        return frozenset({self.site(node)})

    def fkey(self, fr):
        return fr.func.key if fr.func is not None else "?"

    def is_state(self, module, name):
        """a module-level name some function mutates or rebinds (a cache, a registry), not a constant"""
        from rules.common import mutable_module_state

        return (module.name, name) in mutable_module_state(self.idx)

    def finding(self, kind, node, msg, fr):
        self.res.findings.append((kind, getattr(node, "lineno", 0), msg, self.fkey(fr), node))

    def arg_mutation(self, lst, node, what, fr):
        self.res.findings.append(("arg-mutation", getattr(node, "lineno", 0),
                                  "`%s` changes the list object passed as `%s` itself (no copy was taken): the caller's list - the same object on the next call, or shared with another command - is shorter or reordered afterwards, so a second use computes with the wrong values or fails its length check" % (what, lst.argobj),
                                  self.fkey(fr), node))

    def write_site(self, base, node, what, fr):
        al = E
        if isinstance(base, Arr):
            al = base.alias | base.dataof | base.maskof
            if base.kind == "masked" and not what.startswith("attribute store"):
                al = al | base.maskalias  # a store into a masked array also rewrites its mask buffer
        self.res.writes.append(Write(getattr(node, "lineno", 0), what, al, node, self.fkey(fr), via=self.inline_via[-1] if self.inline_via else None))

    def q(self, e, fr):
        try:
            return self.idx.qualname(fr.module, e, fr.func)
        except Exception:
            return None

    def unsupported(self, what, node, fr):
        raise Unsupported("%s:%s %s — %s is outside the array analyser's vocabulary" % (
            fr.module.rel if fr is not None else "?", getattr(node, "lineno", "?"), _src(node), what))

    # ---------------------------------------------------------------- inputs
    def initial_kwargs(self):
        from . import tables

        P = tables.PARAMS_MOD
        kw = Kw()
        for name, pt in self.decl.inputs.items():
            kw.d[name] = self.param_value(name, pt)
            if not pt.required:
                kw.optional.add(name)
        if "Metadata" not in kw.d:
            kw.d["Metadata"] = Other("dict")
            kw.optional.add("Metadata")
        return kw

    def param_value(self, name, pt):
        from . import tables

        P = tables.PARAMS_MOD
        idx = self.idx
        if pt.is_a(idx, P + ".ResultParameter"):
            return Cmd(name)
        if pt.is_a(idx, P + ".ListParameter"):
            vt = pt.kw.get("value_type")
            if isinstance(vt, tables.ParamTree):
                if vt.is_a(idx, P + ".ResultParameter"):
                    return Lst("cmds", L=name, argobj=name)
                if vt.is_a(idx, P + ".NumberParameter"):
                    return Lst("nums", srcs=(name,), argobj=name, elem=Scal(D=frozenset({"@" + name})))
            return Lst("opaque")
        if pt.is_a(idx, P + ".NumberParameter"):
            return Scal(sym="kw:" + name)
        if pt.is_a(idx, P + ".BooleanParameter"):
            return Other("bool")
        if pt.is_a(idx, P + ".DataTypeParameter"):
            return Other("type", name)
        if pt.is_a(idx, P + ".StringParameter"):
            return Other("str", None)
        if pt.is_a(idx, P + ".TupleParameter"):
            return Other("dict")
        return Other("opaque")

    def input_arr(self, tokset, name):
        """the symbolic input array of a reference input (inductive hypotheses: Data inputs are Masked; fuzzy inputs Float)"""
        kind, pt = self.decl.ref_inputs().get(name, (None, None))
        fz = pt.kw.get("is_fuzzy") if pt is not None else None
        return Arr(kind="masked", alias=tokset, M=tokset, D=tokset, shape="same", dt=F_ if fz is True else IF_, dtprov=tokset)

    # ---------------------------------------------------------------- run
    def run(self):
        fi = self.decl.execute
        if fi is None:
            raise AnalysisError("command %s has no execute" % self.decl.key)
        env = {}
        a = fi.node.args
        if a.args:
            env[a.args[0].arg] = Other("self")
        kw = self.initial_kwargs()
        for x in a.args[1:] + a.kwonlyargs:
            if x.arg in kw.d:
                env[x.arg] = kw.d.pop(x.arg)
            else:
                env[x.arg] = Other("opaque")
        if a.kwarg is not None:
            env[a.kwarg.arg] = kw
        fr = Frame(fi.module, fi, self.decl.cls, env)
        self.exec_block(fi.node.body, fr)
        if not fr.env.get("__dead__"):
            fr.returns.append((fi.node, Other("none")))
        self.res.returns = [(s, v, fi.key) for s, v in fr.returns]
        for (fk_, L_), uses in self.__dict__.get("_three_way", {}).items():
            if {k_ for k_, _e, _m, _f in uses} == {"second", "tail"}:
                e_ = uses[0][1]
                self.res.soft_undecided.append("%s:%s %s — the input list %s is split three ways (first, second, the others); the first/rest model of an input list cannot follow that"
                                               % (fi.module.rel, getattr(e_, "lineno", 0), _src(e_), L_))
            else:
                for k_, e_, m_, f_ in uses:
                    self.finding("list-index", e_, m_, f_)
        return self.res

    # ---------------------------------------------------------------- statements
    def exec_block(self, stmts, fr):
        for i, s in enumerate(stmts):
            if fr.env.get("__dead__"):
                return
            if isinstance(s, ast.If) and i + 1 < len(stmts) and fr.depth < 40 and self._splits_on_single(s.test, fr) and not fr.env.get("__single__"):
                # `if len(<input list>) > 1:` - the statements after it are walked once for each outcome, so that what the branch
                # sets up for several inputs is not blamed on the single-input case (where "the rest" of the list is empty)
                outs = []
                for take in (True, False):
                    f2 = Frame(fr.module, fr.func, fr.cls, _copy_env(fr.env), fr.depth + 1)
                    f2.returns = fr.returns
                    self.refine(s.test, take, f2)
                    self.cond_stack.append((s.test, take, fr))
                    try:
                        self.exec_block(s.body if take else s.orelse, f2)
                    finally:
                        self.cond_stack.pop()
                    if not f2.env.get("__dead__"):
                        self.exec_block(stmts[i + 1:], f2)
                    if not f2.env.get("__dead__"):
                        outs.append(f2.env)
                if not outs:
                    fr.env["__dead__"] = True
                else:
                    merged = self.join_envs(outs)
                    fr.env.clear()
                    fr.env.update(merged)
                return
            self.exec_stmt(s, fr)

    def _splits_on_single(self, test, fr):
        """the test decides whether an input list holds exactly one element (`len(xs) > 1`, `len(xs) == 1`, ...)"""
        t = test
        while isinstance(t, ast.UnaryOp) and isinstance(t.op, ast.Not):
            t = t.operand
        if isinstance(t, ast.Compare) and len(t.ops) == 1 and isinstance(t.left, ast.Call) and isinstance(t.left.func, ast.Name) and t.left.func.id == "len" and len(t.left.args) == 1 \
                and isinstance(t.left.args[0], ast.Name) and isinstance(t.comparators[0], ast.Constant) and (t.comparators[0].value, type(t.ops[0])) in ((1, ast.Gt), (1, ast.Eq), (1, ast.NotEq), (1, ast.LtE), (2, ast.Lt), (2, ast.GtE)):
            lst = fr.env.get(t.left.args[0].id)
            return isinstance(lst, Lst) and bool(lst.L) and lst.part == "all" and lst.what in ("arrs", "cmds")
        return False

    def exec_stmt(self, s, fr):
        env = fr.env
        if isinstance(s, ast.Expr):
            if isinstance(s.value, ast.Constant):
                return
            self.ev(s.value, fr)
        elif isinstance(s, ast.Assign):
            v = self.ev(s.value, fr)
            for t in s.targets:
                self.assign(t, v, fr, s)
        elif isinstance(s, ast.AnnAssign):
            if s.value is not None:
                self.assign(s.target, self.ev(s.value, fr), fr, s)
        elif isinstance(s, ast.AugAssign):
            self.aug(s, fr)
        elif isinstance(s, ast.Return):
            v = self.ev(s.value, fr) if s.value is not None else Other("none")
            single = env.get("__single__")
            if isinstance(v, Arr) and single:
                # on a branch where the input list is known to hold one element, "the rest" is empty: covering/using it is vacuous
                for L in single:
                    if (L + "#0") in v.D:
                        v = replace(v, D=v.D | {L + "#r"})
                    if (L + "#0") in v.M:
                        v = replace(v, M=v.M | {L + "#r"})
            fr.returns.append((s, v))
            self.res.return_conds[id(s)] = tuple((t_, p_) for t_, p_, _f in self.cond_stack)
            env["__dead__"] = True
        elif isinstance(s, ast.Raise):
            if s.exc is not None:
                self.ev(s.exc, fr)
            env["__dead__"] = True
        elif isinstance(s, ast.If):
            const = self.fold(s.test) if self.fold else None
            if const is None:
                cv = self.ev(s.test, fr)
                self.truth(cv, s.test, fr)
                const = self.static_truth(cv)
                deps_ = (cv.D | cv.Pg) if isinstance(cv, (Arr, Scal)) else E
                for x_ in ast.walk(s.test):
                    if isinstance(x_, ast.Name) and isinstance(env.get(x_.id), (Arr, Scal)):
                        deps_ = deps_ | env[x_.id].D | env[x_.id].Pg
                    elif isinstance(x_, ast.Subscript) and isinstance(x_.value, ast.Name) and isinstance(env.get(x_.value.id), Lst) and env[x_.value.id].what == "nums" \
                            and isinstance(env[x_.value.id].elem, Scal):
                        deps_ = deps_ | env[x_.value.id].elem.D  # an element of a numeric list argument (a weight, a threshold)
                if deps_:
                    self.res.cond_deps[id(s.test)] = self.res.cond_deps.get(id(s.test), E) | deps_
            branches = []
            for body, take in ((s.body, True), (s.orelse, False)):
                if const is not None and const != take:
                    continue
                f2 = Frame(fr.module, fr.func, fr.cls, _copy_env(env), fr.depth)
                f2.returns = fr.returns
                self.refine(s.test, take, f2)
                if take and body and isinstance(body[0], ast.AugAssign) and self._result_type_guard(s.test, body[0], fr):
                    self.__dict__.setdefault("_dtype_guarded", set()).add(id(body[0]))
                self.cond_stack.append((s.test, take, fr))
                try:
                    self.exec_block(body, f2)
                finally:
                    self.cond_stack.pop()
                if not f2.env.get("__dead__"):
                    branches.append(f2.env)
                    f2.env["__conds__"] = tuple(self.cond_stack) + ((s.test, take, fr),)
            if not branches:
                env["__dead__"] = True
            else:
                conds = [b.pop("__conds__") for b in branches]
                merged = self.join_envs(branches)
                if len(branches) > 1:
                    # a slice object chosen per branch and used later: keep each alternative with the conditions it was chosen under
                    for k_, v_ in list(merged.items()):
                        if isinstance(v_, Other) and v_.tag == "slice" and v_.info is None and all(isinstance(b.get(k_), Other) and b[k_].tag == "slice" and isinstance(b[k_].info, tuple) for b in branches):
                            alts = []
                            for b, cs in zip(branches, conds):
                                inf = b[k_].info
                                if inf and inf[0] == "alts":
                                    alts.extend(inf[1])
                                else:
                                    alts.append((cs, inf))
                            merged[k_] = Other("slice", ("alts", tuple(alts)))
                env.clear()
                env.update(merged)
        elif isinstance(s, ast.For):
            self.exec_for(s, fr)
        elif isinstance(s, ast.While):
            self.ev(s.test, fr)
            before = _copy_env(env)
            self.loop_stack.append([])
            self.exec_block(s.body, fr)
            exits = self.loop_stack.pop()
            dead = env.pop("__dead__", None)
            merged = self.join_envs([before] + ([] if dead else [env]) + exits)
            env.clear()
            env.update(merged)
        elif isinstance(s, ast.With):
            for item in s.items:
                v = self.ev(item.context_expr, fr)
                if item.optional_vars is not None:
                    self.assign(item.optional_vars, v, fr, s)
            self.exec_block(s.body, fr)
        elif isinstance(s, ast.Try):
            before = _copy_env(env)
            self.exec_block(s.body, fr)
            outs = []
            if not env.get("__dead__"):
                self.exec_block(s.orelse, fr)
                if not env.get("__dead__"):
                    outs.append(_copy_env(env))
            for h in s.handlers:
                f2 = Frame(fr.module, fr.func, fr.cls, self.join_envs([before, {k: v for k, v in env.items() if k != "__dead__"}]) if True else before, fr.depth)
                f2.returns = fr.returns
                if h.name:
                    f2.env[h.name] = Other("exc")
                self.exec_block(h.body, f2)
                if not f2.env.get("__dead__"):
                    outs.append(f2.env)
            if not outs:
                env["__dead__"] = True
            else:
                merged = self.join_envs(outs)
                env.clear()
                env.update(merged)
            if s.finalbody:
                dead = env.pop("__dead__", None)
                self.exec_block(s.finalbody, fr)
                if dead:
                    env["__dead__"] = True
        elif isinstance(s, ast.Delete):
            for t in s.targets:
                if isinstance(t, ast.Subscript):
                    base = self.ev(t.value, fr)
                    if isinstance(base, Kw):
                        k = self.const_key(t.slice, fr)
                        base.d.pop(k, None)
                    elif isinstance(base, (Lst, Other)):
                        if isinstance(base, Lst) and base.argobj:
                            self.arg_mutation(base, s, "del %s" % _src(t), fr)
                    else:
                        self.unsupported("del on %r" % (base,), s, fr)
                elif isinstance(t, ast.Name):
                    env.pop(t.id, None)
                else:
                    self.unsupported("delete target", s, fr)
        elif isinstance(s, (ast.Break, ast.Continue)):
            # the rest of the iteration is skipped: this state flows to the end of the loop body
            if self.loop_stack:
                self.loop_stack[-1].append(_copy_env(env))
                env["__dead__"] = True
        elif isinstance(s, (ast.Pass, ast.Import, ast.ImportFrom, ast.Global, ast.Nonlocal)):
            pass
        elif isinstance(s, ast.Assert):
            self.ev(s.test, fr)
        elif isinstance(s, (ast.FunctionDef, ast.ClassDef)):
            env[s.name] = Other("localdef", s)
        else:
            self.unsupported("statement %s" % type(s).__name__, s, fr)

    def static_truth(self, v):
        if isinstance(v, Other) and v.tag == "bool" and isinstance(v.info, bool):
            return v.info
        if isinstance(v, Other) and v.tag == "none":
            return False
        return None

    def refine_range(self, t, want, fr):
        """`lo <= x.min()` / `x.max() <= hi` known true on this branch: the non-missing cells of x lie within those bounds"""
        if isinstance(t, ast.UnaryOp) and isinstance(t.op, ast.Not):
            return self.refine_range(t.operand, not want, fr)
        if isinstance(t, ast.BoolOp):
            if (isinstance(t.op, ast.And) and want) or (isinstance(t.op, ast.Or) and not want):
                for v in t.values:
                    self.refine_range(v, want, fr)
            return
        if not (isinstance(t, ast.Compare) and want):
            return
        terms = [t.left] + list(t.comparators)
        for (l, op, r) in zip(terms, t.ops, terms[1:]):
            for small, big, strict_ok in (((l, r, True) if isinstance(op, (ast.LtE, ast.Lt)) else (r, l, True) if isinstance(op, (ast.GtE, ast.Gt)) else (None, None, False)),):
                if small is None:
                    continue
                # small <= big
                for bound, call, which in ((small, big, "lo"), (big, small, "hi")):
                    if isinstance(call, ast.Call) and isinstance(call.func, ast.Attribute) and call.func.attr == ("min" if which == "lo" else "max") and not call.args and not call.keywords and isinstance(call.func.value, ast.Name):
                        x = fr.env.get(call.func.value.id)
                        try:
                            b = self.ev(bound, fr)
                        except Unsupported:
                            continue
                        if isinstance(x, Arr) and isinstance(b, Scal) and scal_id(b) is not None:
                            lo, hi = x.rng
                            new = replace(x, rng=(scal_id(b), hi) if which == "lo" else (lo, scal_id(b)))
                            self.rebind(call.func.value, x, new, fr)

    def refine_nomask(self, t, want, fr, depth=0):
        """`getmask(y) is nomask` / `not is_masked(y)` known true on this branch: y has no missing cell, so every array is
        (vacuously) missing wherever y is - y's coverage tokens are added to every masked array of the frame"""
        if isinstance(t, ast.UnaryOp) and isinstance(t.op, ast.Not):
            return self.refine_nomask(t.operand, not want, fr, depth)
        if isinstance(t, ast.BoolOp):
            if (isinstance(t.op, ast.And) and want) or (isinstance(t.op, ast.Or) and not want):
                for v in t.values:
                    self.refine_nomask(v, want, fr, depth)
            return
        if isinstance(t, ast.Call) and isinstance(t.func, ast.Name) and t.func.id == "bool" and len(t.args) == 1:
            return self.refine_nomask(t.args[0], want, fr, depth)
        if isinstance(t, ast.Name) and depth < 3 and fr.func is not None and getattr(fr.func, "node", None) is not None:
            defs = [n.value for n in ast.walk(fr.func.node) if isinstance(n, ast.Assign) and len(n.targets) == 1 and isinstance(n.targets[0], ast.Name) and n.targets[0].id == t.id]
            if len(defs) == 1:
                return self.refine_nomask(defs[0], want, fr, depth + 1)
            return
        if isinstance(t, ast.Call) and isinstance(t.func, ast.Name) and depth < 3 and not t.keywords and all(isinstance(a_, ast.Name) for a_ in t.args):
            # a package helper whose body is one `return <condition>`: the condition with the arguments put in
            r_ = self.idx.resolve(fr.module, t.func, fr.func)
            if r_ is not None and r_[0] == "func":
                hf = r_[1]
                body = [st for st in hf.node.body if not (isinstance(st, ast.Expr) and isinstance(st.value, ast.Constant))]
                body = [st for st in body if not (isinstance(st, ast.Assign) and len(st.targets) == 1 and isinstance(st.targets[0], ast.Name))] if len(body) > 1 else body
                assigns = {st.targets[0].id: st.value for st in hf.node.body if isinstance(st, ast.Assign) and len(st.targets) == 1 and isinstance(st.targets[0], ast.Name)}
                params = [a_.arg for a_ in hf.node.args.args]
                if len(body) == 1 and isinstance(body[0], ast.Return) and body[0].value is not None and len(params) == len(t.args):
                    import copy as _copy
                    m_ = {p_: a_.id for p_, a_ in zip(params, t.args)}

                    class _S(ast.NodeTransformer):
                        def visit_Name(self, x):
                            if x.id in m_:
                                return ast.copy_location(ast.Name(id=m_[x.id], ctx=x.ctx), x)
                            return x

                    cond = _S().visit(_copy.deepcopy(body[0].value))
                    return self.refine_nomask(cond, want, fr, depth + 1)
        if isinstance(t, ast.Call) and not want and isinstance(t.func, (ast.Name, ast.Attribute)) and (self.q(t.func, fr) or "") in ("numpy.ma.is_masked",) and len(t.args) == 1:
            try:
                y = self.ev(t.args[0], fr)
            except Unsupported:
                return
            if isinstance(y, Arr) and y.kind == "masked" and y.M:
                for k, v in list(fr.env.items()):
                    if isinstance(v, Arr) and v.kind == "masked":
                        fr.env[k] = replace(v, M=v.M | y.M)
            return
        if not (isinstance(t, ast.Compare) and len(t.ops) == 1 and isinstance(t.ops[0], (ast.Is, ast.IsNot))):
            return
        l, r = t.left, t.comparators[0]
        qn = self.q(r, fr) if isinstance(r, (ast.Name, ast.Attribute)) else None
        if qn not in ("numpy.ma.nomask", "numpy.ma.core.nomask"):
            l, r = r, l
            qn = self.q(r, fr) if isinstance(r, (ast.Name, ast.Attribute)) else None
        if qn not in ("numpy.ma.nomask", "numpy.ma.core.nomask"):
            return
        is_nomask = want == isinstance(t.ops[0], ast.Is)
        if not is_nomask:
            return
        try:
            m = self.ev(l, fr)
        except Unsupported:
            return
        if isinstance(m, Arr) and m.isbool and m.maskof and m.M:
            for k, v in list(fr.env.items()):
                if isinstance(v, Arr) and v.kind == "masked":
                    fr.env[k] = replace(v, M=v.M | m.M)

    def refine(self, test, take, fr):
        """branch refinement: `if x is not None`, `if "K" in kwargs`"""
        self.refine_range(test, take, fr)
        self.refine_nomask(test, take, fr)
        # `any(m.any() for m in <the list of every input's mask>)` known false: no input has a missing cell, so `nomask` stands for
        # the (empty) union of all of them on this branch
        t0, w0 = test, take
        while isinstance(t0, ast.UnaryOp) and isinstance(t0.op, ast.Not):
            t0, w0 = t0.operand, not w0
        if not w0 and isinstance(t0, ast.Call) and isinstance(t0.func, ast.Name) and t0.func.id == "any" and len(t0.args) == 1 and isinstance(t0.args[0], (ast.GeneratorExp, ast.ListComp)) \
                and len(t0.args[0].generators) == 1 and not t0.args[0].generators[0].ifs and isinstance(t0.args[0].generators[0].iter, ast.Name) and isinstance(t0.args[0].generators[0].target, ast.Name):
            gg = t0.args[0].generators[0]
            el = t0.args[0].elt
            if isinstance(el, ast.Call) and isinstance(el.func, ast.Attribute) and el.func.attr == "any" and not el.args and isinstance(el.func.value, ast.Name) and el.func.value.id == gg.target.id:
                lst = fr.env.get(gg.iter.id)
                if isinstance(lst, Lst) and lst.what == "masks" and lst.L and lst.part == "all" and not lst.oneshot:
                    whole = self.part_elem(lst)
                    if isinstance(whole, Arr):
                        fr.env["__nomissing__"] = replace(whole, alias=E, freshmask=True)
        t = test
        neg = False
        while isinstance(t, ast.UnaryOp) and isinstance(t.op, ast.Not):
            neg = not neg
            t = t.operand
        want = take != neg
        if isinstance(t, ast.Compare) and len(t.ops) == 1 and isinstance(t.left, ast.Call) and isinstance(t.left.func, ast.Name) and t.left.func.id == "len" and t.left.args and isinstance(t.comparators[0], ast.Constant):
            lst = self.ev(t.left.args[0], fr) if isinstance(t.left.args[0], ast.Name) else None
            c = t.comparators[0].value
            op = t.ops[0]
            one = (isinstance(op, ast.Eq) and c == 1 and want) or (isinstance(op, ast.Lt) and c == 2 and want) or (isinstance(op, ast.LtE) and c == 1 and want) \
                or (isinstance(op, ast.NotEq) and c == 1 and not want) or (isinstance(op, ast.Gt) and c == 1 and not want) or (isinstance(op, ast.GtE) and c == 2 and not want)
            if one and isinstance(lst, Lst) and lst.L and lst.part == "all":
                fr.env["__single__"] = frozenset(fr.env.get("__single__", frozenset()) | {lst.L})
        if isinstance(t, ast.Compare) and len(t.ops) == 1 and isinstance(t.ops[0], (ast.In, ast.NotIn)) and isinstance(t.left, ast.Attribute) and t.left.attr == "kind" \
                and isinstance(t.left.value, ast.Name) and isinstance(t.comparators[0], ast.Constant) and isinstance(t.comparators[0].value, str):
            # `dt.kind in "fc"`: the element type is floating (or not) on this branch
            dv = fr.env.get(t.left.value.id)
            if isinstance(dv, Other) and dv.tag == "dtype" and isinstance(dv.info, Arr):
                kinds = set(t.comparators[0].value)
                member = want if isinstance(t.ops[0], ast.In) else not want
                klass = {"f": {"f", "c"}, "i": {"i", "u"}, "b": {"b"}}
                keep = frozenset(k_ for k_ in dv.info.dt if (klass[k_] <= kinds if member else not (klass[k_] & kinds)))
                if member and not all((klass[k_] <= kinds) or not (klass[k_] & kinds) for k_ in dv.info.dt):
                    keep = dv.info.dt  # the letters split one of the abstract kinds: no refinement
                if keep:
                    fr.env[t.left.value.id] = Other("dtype", replace(dv.info, dt=keep))
        if isinstance(t, ast.Compare) and len(t.ops) == 1 and isinstance(t.ops[0], (ast.In, ast.NotIn)):
            base = fr.env.get(t.comparators[0].id) if isinstance(t.comparators[0], ast.Name) else None
            if isinstance(base, Kw) and isinstance(t.left, ast.Constant):
                present = want if isinstance(t.ops[0], ast.In) else not want
                if present:
                    base.optional.discard(t.left.value)

    def exec_for(self, s, fr):
        env = fr.env
        it = self.ev(s.iter, fr)
        if isinstance(it, Lst) and it.what == "mixed" and it.items is not None and 0 < len(it.items) <= 12 and all(self.constant_like(x) for x in it.items):
            # a loop over a literal collection (e.g. a rename table): unrolled
            for item in it.items:
                self.assign(s.target, item, fr, s)
                self.loop_stack.append([])
                self.exec_block(s.body, fr)
                exits = self.loop_stack.pop()
                if exits:
                    dead = env.pop("__dead__", None)
                    merged = self.join_envs(([] if dead else [_copy_env(env)]) + exits)
                    env.clear()
                    env.update(merged)
                if env.get("__dead__"):
                    return
            if s.orelse:
                self.exec_block(s.orelse, fr)
            return
        rest_lists = [x_ for x_ in ([it] + list(getattr(it, "zipped", ()) or ())) if isinstance(x_, Lst) and x_.L and x_.part == "rest"]
        if rest_lists and all(x_.L in env.get("__single__", frozenset()) for x_ in rest_lists):
            return  # the list is known to hold one element on this path: there is nothing after the first
        elem = self.elem_of(it, s.iter, fr)
        before = _copy_env(env)
        self.assign(s.target, elem, fr, s)
        ST = frozenset(self.list_toks(it))
        if isinstance(it, Lst) and it.what == "range" and it.sliced is not None:
            # an index loop: the lists it walks are those of the command's list inputs
            part = "rest" if it.sliced[0] == 1 else "all"
            for nm, (kind, _) in self.decl.ref_inputs().items():
                if kind == "cmdlist":
                    ST = ST | toks(nm, part)
        self.loop_stack.append([])
        self.exec_block(s.body, fr)
        exits = self.loop_stack.pop()
        dead = env.pop("__dead__", None)
        if exits:
            # `continue` / `break`: iterations that skip the rest of the body end in these states
            merged = self.join_envs(([] if dead else [_copy_env(env)]) + exits)
            env.clear()
            env.update(merged)
        for name in list(env):
            b = before.get(name)
            a = env[name]
            if name not in before:
                continue
            if isinstance(b, Arr) and isinstance(a, Arr) and a != b:
                j = self.join(b, a)
                # universal loop summary: coverage gained in the body for tokens of the iterated sub-list is kept
                env[name] = replace(j, M=(a.M & ST) | (a.M & b.M))
            elif isinstance(b, Scal) and isinstance(a, Arr):
                # an accumulator started from a number: the iterated list is not empty (validated inputs), so after the loop
                # it is an array; it covers what every iteration adds for the tokens of the iterated list
                env[name] = replace(a, D=a.D | b.D, Pg=a.Pg | b.Pg, M=a.M & ST)
            elif isinstance(b, Other) and b.tag == "global" and b.info in ("numpy.ma.nomask", "numpy.ma.core.nomask") and isinstance(a, Arr) and a.isbool:
                # a mask union started from `nomask` (no missing cells): after the loop over the validated, non-empty list it covers
                # what every iteration adds for the tokens of the iterated list
                env[name] = replace(a, M=a.M & ST)
            elif a != b and not isinstance(a, Kw):
                env[name] = self.join(b, a)
        if s.orelse:
            self.exec_block(s.orelse, fr)

    def constant_like(self, x):
        if isinstance(x, Other) and x.tag in ("str", "bool", "none", "type") and (x.tag != "str" or isinstance(x.info, str)):
            return True
        if isinstance(x, Scal) and x.const is not None:
            return True
        if isinstance(x, Lst) and x.items is not None:
            return all(self.constant_like(y) or isinstance(y, (Scal, Other)) for y in x.items) and any(self.constant_like(y) for y in x.items)
        return False

    def list_toks(self, x):
        out = set()
        if isinstance(x, Lst):
            if x.L:
                out |= set(toks(x.L, x.part))
            for y in x.zipped or ():
                out |= self.list_toks(y)
            if isinstance(x.elem, Lst):
                out |= self.list_toks(x.elem)
        return out

    # ---------------------------------------------------------------- joins
    def join_envs(self, envs):
        keys = set().union(*[set(e) for e in envs])
        out = {}
        for k in keys:
            if k == "__dead__":
                continue
            if k == "__single__":
                vals = [e.get(k, frozenset()) for e in envs]
                common = frozenset.intersection(*vals) if vals else frozenset()
                if common:
                    out[k] = common
                continue
            vals = [e[k] for e in envs if k in e]
            # a name bound on some paths only keeps the value of the paths that bind it (reading it elsewhere is a NameError)
            v = vals[0]
            for w in vals[1:]:
                v = self.join(v, w)
            out[k] = v
        return out

    def join(self, a, b):
        if a is b or a == b:
            return a
        if isinstance(a, Arr) and isinstance(b, Arr):
            return Arr(
                kind=a.kind if a.kind == b.kind else "unknown", isbool=a.isbool and b.isbool, alias=a.alias | b.alias, M=a.M & b.M,
                D=a.D | b.D, Pc=a.Pc | b.Pc, Pg=a.Pg | b.Pg, shape=a.shape if a.shape == b.shape else "unknown", dt=a.dt | b.dt,
                dtprov=a.dtprov | b.dtprov, rng=(a.rng[0] if a.rng[0] == b.rng[0] else None, a.rng[1] if a.rng[1] == b.rng[1] else None),
                sel=a.sel if a.sel == b.sel else None, sorted0=a.sorted0 and b.sorted0, filearr=a.filearr or b.filearr,
                maskof=a.maskof | b.maskof, dataof=a.dataof | b.dataof, constmask=a.constmask or b.constmask,
                layermask=a.layermask or b.layermask, maskalias=a.maskalias | b.maskalias, unguarded=a.unguarded | b.unguarded,
            )
        if isinstance(a, Scal) and isinstance(b, Scal):
            return Scal(D=a.D | b.D, Pg=a.Pg | b.Pg, dt=a.dt | b.dt, const=a.const if a.const == b.const else None,
                        rng=(a.rng[0] if a.rng[0] == b.rng[0] else None, a.rng[1] if a.rng[1] == b.rng[1] else None),
                        sym=a.sym if a.sym == b.sym else ("%s|%s" % tuple(sorted([str(scal_id(a)), str(scal_id(b))]))))
        if isinstance(a, Kw) and isinstance(b, Kw):
            ks = set(a.d) | set(b.d)
            out = Kw()
            for k in ks:
                if k in a.d and k in b.d:
                    out.d[k] = self.join(a.d[k], b.d[k])
                    if k in a.optional or k in b.optional:
                        out.optional.add(k)
                else:
                    out.d[k] = a.d.get(k, b.d.get(k))
                    out.optional.add(k)
            return out
        if isinstance(a, Other) and a.tag == "none":
            return b
        if isinstance(b, Other) and b.tag == "none":
            return a
        if isinstance(a, Lst) and isinstance(b, Lst) and a.what == b.what:
            if a.items is not None and b.items is not None and len(a.items) == len(b.items):
                return replace(a, items=tuple(self.join(x, y) for x, y in zip(a.items, b.items)))
            return a
        if isinstance(a, Scal) and isinstance(b, Other) and b.tag in ("opaque", "rawarg"):
            return a
        if isinstance(b, Scal) and isinstance(a, Other) and a.tag in ("opaque", "rawarg"):
            return b
        if isinstance(a, Other) and isinstance(b, Other) and a.tag == b.tag == "dtype" and isinstance(a.info, Arr) and isinstance(b.info, Arr):
            return Other("dtype", Arr(kind="plain", alias=E, dt=a.info.dt | b.info.dt, dtprov=a.info.dtprov | b.info.dtprov))
        if isinstance(a, Other) and isinstance(b, Other) and a.tag == b.tag:
            return Other(a.tag, a.info if a.info == b.info else None)
        if isinstance(a, Arr) or isinstance(b, Arr):
            arr = a if isinstance(a, Arr) else b
            oth = b if isinstance(a, Arr) else a
            if isinstance(oth, Scal):
                # e.g. `mask if is_masked(x) else False`; on the path that delivers the number there is no mask at all, so no
                # coverage survives the join (an accumulator that is still its initial 0 on some path has masked nothing)
                return replace(arr, D=arr.D | oth.D, Pg=arr.Pg | oth.Pg, M=E)
            if isinstance(oth, Other) and oth.tag == "bool":
                return replace(arr, M=E if arr.isbool else arr.M)
            return Other("join", (a, b))
        return Other("join", (a, b))

    # =================================================================================================
    # Part 3: assignment, in-place operations
    # =================================================================================================
    def const_key(self, e, fr):
        if isinstance(e, ast.Constant):
            return e.value
        if isinstance(e, ast.Name) and e.id in fr.env:
            v = fr.env[e.id]
            if isinstance(v, Other) and v.tag == "str" and isinstance(v.info, str):
                return v.info
        try:
            return self.idx.const(fr.module, e, fr.func)
        except KeyError:
            self.unsupported("non-constant kwargs key", e, fr)

    def elem_of(self, it, node, fr):
        if isinstance(it, Lst):
            if it.items is not None:
                if not it.items:
                    return Other("opaque")
                v = it.items[0]
                for w in it.items[1:]:
                    v = self.join(v, w)
                return v
            if it.what == "cmds":
                return Cmd(it.L, part=it.part)
            if it.what in ("arrs", "masks"):
                return self.part_elem(it)
            if it.what == "nums":
                return Scal(sym="elem(%s)" % ",".join(it.srcs), rng=it.elem.rng if isinstance(it.elem, Scal) else (None, None), D=it.elem.D if isinstance(it.elem, Scal) else E, Pg=it.elem.Pg if isinstance(it.elem, Scal) else E)
            if it.what == "pairs":
                return Lst("mixed", items=(Scal(sym="raw"), Scal(sym="normal")))
            if it.what == "zip":
                return Lst("mixed", items=tuple(self.elem_of(x, node, fr) for x in it.zipped))
            if it.what == "enum":
                return Lst("mixed", items=(Scal(dt=I_), self.elem_of(it.elem, node, fr)))
            if it.what == "range":
                if it.sliced is not None:
                    return Scal(dt=I_, sym="idx@%d" % it.sliced[0])
                return Scal(dt=I_)
            if it.what in ("opaque", "mixed", "shape"):
                return Other("opaque")
        if isinstance(it, Other) and it.tag in ("opaque", "file", "dims", "csvreader", "dict", "dictobj", "str", "rawarg", "ncds", "ncvar", "join"):
            return Other("opaque")
        if isinstance(it, Kw):
            return Other("str")
        if isinstance(it, Arr):
            if it.shape in ("same", "stacked", "rankdep"):
                self.finding("equivariance", node, "python-level iteration over an array walks a data axis: %s" % _src(node), fr)
            if it.shape == "layervec":
                return Scal(D=it.D, Pg=it.Pg | it.Pc, dt=it.dt, masked_const_possible=it.kind == "masked", sym="layernum")  # one layer's number
            return Scal(D=it.D, Pg=it.Pg | it.Pc) if it.shape == "flat" else replace(it, shape="unknown", alias=it.alias)
        self.unsupported("iteration over %r" % (it,), node, fr)

    def part_elem(self, lst):
        t = toks(lst.L, lst.part)
        e = lst.elem
        sub = lambda s: frozenset(x for y in s for x in (t if y == "ELEM" else {y}))  # noqa: E731
        return replace(e, alias=sub(e.alias), M=sub(e.M), D=sub(e.D), Pc=sub(e.Pc), Pg=sub(e.Pg), dtprov=sub(e.dtprov), maskof=sub(e.maskof), dataof=sub(e.dataof), maskalias=sub(e.maskalias))

    def assign(self, t, v, fr, stmt):
        env = fr.env
        if isinstance(t, ast.Name):
            if _TRACE:
                import sys as _sys
                _sys.stderr.write("TRACE %s:%s %s = %r\n" % (getattr(fr.func, "qualname", "?"), getattr(stmt, "lineno", "?"), t.id, v))
            env[t.id] = v
        elif isinstance(t, (ast.Tuple, ast.List)):
            if isinstance(v, Lst) and v.items is not None and len(v.items) == len(t.elts):
                for tt, vv in zip(t.elts, v.items):
                    self.assign(tt, vv, fr, stmt)
            elif isinstance(v, Other):
                for tt in t.elts:
                    self.assign(tt, Other("opaque"), fr, stmt)
            elif isinstance(v, Arr):
                if v.shape in ("same", "stacked"):
                    self.finding("equivariance", stmt, "unpacking an array walks its first axis: %s" % _src(stmt), fr)
                for tt in t.elts:
                    self.assign(tt, replace(v, shape="unknown"), fr, stmt)
            else:
                self.unsupported("unpacking of %r" % (v,), stmt, fr)
        elif isinstance(t, ast.Subscript):
            base = self.ev(t.value, fr)
            if isinstance(base, Kw):
                if getattr(base, "static", None):
                    self.res.findings.append(("shared-table-mutation", stmt.lineno, "`%s = ...` stores into the %s `%s` itself: the entry is still there for the next execution of any instance" % (_src(t)[:60], "class attribute" if base.static[0] == "classattr" else "module-level table", base.static[-1]), self.fkey(fr), stmt))
                base.d[self.const_key(t.slice, fr)] = v
                base.optional.discard(self.const_key(t.slice, fr))
                return
            if isinstance(base, Other) and base.tag in ("opaque", "ncvar", "ncds", "dict", "dictobj", "join"):
                self.ev(t.slice, fr)
                if isinstance(v, Arr):
                    self.res.ncstores.append((stmt.lineno, v, stmt))
                return
            if isinstance(base, Lst):
                if base.argobj:
                    self.arg_mutation(base, stmt, "%s = ..." % _src(t), fr)
                return
            if isinstance(base, Arr):
                idx = self.ev(t.slice, fr)
                self.write_site(base, stmt, "store %s" % _src(t), fr)
                new = self.setitem(base, idx, v, t, fr)
                self.rebind(t.value, base, new, fr)
                if base.dataof and base.kind == "plain" and new.rng != base.rng:
                    # a bound established through the data view (`d = getdata(x); d[d > hi] = hi`) holds for every cell of x,
                    # hidden ones included: the arrays this is the data of carry it too
                    for k_, w_ in list(fr.env.items()):
                        if isinstance(w_, Arr) and w_ is not new and w_.kind == "masked" and (w_.alias & base.dataof) and not w_.dataof:
                            lo_ = new.rng[0] if new.rng[0] is not None else w_.rng[0]
                            hi_ = new.rng[1] if new.rng[1] is not None else w_.rng[1]
                            fr.env[k_] = replace(w_, rng=(lo_, hi_))
                return
            self.unsupported("subscript store on %r" % (base,), stmt, fr)
        elif isinstance(t, ast.Attribute):
            base = self.ev(t.value, fr)
            if isinstance(base, Arr) and t.attr == "mask":
                self.write_site(base, stmt, "attribute store %s" % _src(t), fr)
                self.res.maskstores.append((stmt.lineno, base, v, stmt, self.fkey(fr)))
                if isinstance(v, Arr):
                    cov, const = v.M, v.constmask
                    pc = v.Pc
                else:
                    cov, const, pc = E, True, E
                new = replace(base, M=cov, kind="masked", constmask=const, Pc=base.Pc | pc, layermask=bool(isinstance(v, Arr) and v.layermask))
                self.rebind(t.value, base, new, fr)
                return
            if isinstance(base, Arr):
                self.write_site(base, stmt, "attribute store %s" % _src(t), fr)
                if t.attr in ("shape",):
                    self.finding("equivariance", stmt, "array reshaped in place: %s" % _src(stmt), fr)
                return
            if isinstance(base, Other) and base.tag == "self":
                self.res.selfstores.append((stmt.lineno, t.attr, stmt, self.fkey(fr)))
                return
            if isinstance(base, Cmd):
                self.res.effects.append(("dependency-store", stmt.lineno, _src(stmt), self.fkey(fr)))
                if t.attr == "result" or True:
                    return
            if isinstance(base, Other):
                return
            self.unsupported("attribute store .%s on %r" % (t.attr, base), stmt, fr)
        elif isinstance(t, ast.Starred):
            self.assign(t.value, Lst("opaque"), fr, stmt)
        else:
            self.unsupported("assignment target %s" % type(t).__name__, stmt, fr)

    def rebind(self, node, old, new, fr):
        """in-place update of the object denoted by `node`: every local that holds the same abstract object follows"""
        if isinstance(node, ast.Name):
            for k, w in list(fr.env.items()):
                if w is old:
                    fr.env[k] = new
            fr.env[node.id] = new
        elif isinstance(node, ast.Attribute) and node.attr in ("data", "mask") and not isinstance(self.ev(node.value, fr), (Cmd, Other)):
            inner = self.ev(node.value, fr)
            if isinstance(inner, Arr):
                upd = replace(inner, D=new.D | inner.D, Pc=new.Pc | inner.Pc, Pg=new.Pg | inner.Pg) if node.attr == "data" else replace(inner, M=inner.M & new.M)
                self.rebind(node.value, inner, upd, fr)
        elif isinstance(node, ast.Subscript):
            inner = self.ev(node.value, fr)
            if isinstance(inner, Arr):
                self.rebind(node.value, inner, replace(inner, D=new.D | inner.D, Pc=new.Pc | inner.Pc, Pg=new.Pg | inner.Pg, rng=(None, None)), fr)
        elif isinstance(node, ast.Attribute) and node.attr == "result":
            pass
        elif isinstance(node, ast.Call):
            pass
        else:
            self.unsupported("in-place update through %s" % type(node).__name__, node, fr)

    def setitem(self, base, idx, v, tnode, fr):
        if isinstance(v, Other) and v.tag == "global" and str(v.info) in ("numpy.ma.masked", "numpy.ma.core.masked") and base.kind == "masked":
            # A27: `x[idx] = numpy.ma.masked` only marks cells missing (data untouched).  With the mask of y as the index, x is
            # missing wherever y is from then on
            gained = idx.M if (isinstance(idx, Arr) and idx.isbool and idx.maskof) else E
            if isinstance(idx, Lst) and idx.items is not None and len(idx.items) == 2 and isinstance(idx.items[0], Other) and idx.items[0].tag == "slice" and idx.items[0].info == (None, None) \
                    and isinstance(idx.items[1], Arr) and idx.items[1].isbool and idx.items[1].kind == "plain" and idx.items[1].shape == "same" and not idx.items[1].layermask and base.shape == "stacked":
                # stack[:, m] = masked with m a cell mask (true wherever the inputs of m.M are missing): every layer becomes
                # missing there, so the layers share those missing cells from then on
                m_ = idx.items[1]
                if base.M <= m_.M:
                    return replace(base, M=base.M | m_.M, layermask=False)
                return base
            return replace(base, M=base.M | gained)
        D, Pc, Pg = base.D, base.Pc, base.Pg
        if isinstance(idx, Arr) and idx.isbool:
            self.res.selstores.append((tnode, idx.cmp, idx, v, self.fkey(fr)))
        rng = (None, None)
        hidden_only = False
        # clamp form: a[a > hi] = hi  /  a[a < lo] = lo
        if isinstance(idx, Arr) and idx.cmp is not None and idx.cmp[0] & base.alias and scal_id(v) is not None and scal_id(v) == idx.cmp[2]:
            op = idx.cmp[1]
            lo, hi = base.rng
            if op in ("Gt", "GtE"):
                hi = scal_id(v)
            elif op in ("Lt", "LtE"):
                lo = scal_id(v)
            rng = (lo, hi)
        if isinstance(v, Scal) and rng == (None, None) and base.rng != (None, None) and v.rng == base.rng and None not in v.rng:
            rng = base.rng  # a number already within the array's bounds stored into it
        # write under the array's own mask into its data view: touches hidden cells only
        if base.dataof and isinstance(idx, Arr) and idx.maskof and idx.maskof & base.dataof:
            hidden_only = True
        if hidden_only:
            return base
        if isinstance(v, Arr) and not v.isbool and not base.isbool:
            # A4': an item store casts to the target's dtype silently (a float layer stored into an integer buffer is truncated)
            pinned = bool(base.dtprov) and not base.D and bool(v.dtprov) and not (v.dtprov <= base.dtprov)
            if pinned:
                # a buffer created with the element type of some inputs only (dtype=x.dtype, empty_like(x)) receives other inputs
                self.res.findings.append(("dtype", getattr(tnode, "lineno", 0), "item store `%s = ...`: the buffer's element type is that of %s only, while values of %s are cast into it silently (an integer or narrower first input truncates the others), so the outcome depends on the element types and order of the inputs"
                                          % (_src(tnode), sorted(base.dtprov), sorted(v.dtprov - base.dtprov)), self.fkey(fr), tnode))
            for kt in base.dt if not pinned else ():
                for ko in v.dt:
                    if RANK[ko] > RANK[kt] and not (base.dtprov and base.dtprov == v.dtprov and len(base.dtprov) == 1):
                        self.res.findings.append(("dtype", getattr(tnode, "lineno", 0), "item store `%s = ...`: the target may be %s (dtype from %s) while the stored array may be %s; numpy casts silently, so values are truncated and the outcome depends on the element types and order of the inputs"
                                                  % (_src(tnode), _DT[kt], sorted(base.dtprov) or "a fresh array", _DT[ko]), self.fkey(fr), tnode))
                        break
                else:
                    continue
                break
        M = base.M
        if base.kind == "masked" and base.hardmask:
            pass  # A26: a hard mask keeps every missing cell through item stores
        elif base.kind == "masked" and isinstance(idx, Arr) and idx.isbool and idx.validof & (base.alias | base.dataof):
            pass  # only cells that are not missing are selected: the store uncovers nothing
        elif base.kind == "masked":
            # A9 (amended): a store of an unmasked value clears the (soft) mask at the selected cells.  Cells whose *index*
            # entry is masked keep their mask, so coverage survives only for inputs whose mask the index itself carries.
            vM = v.M if isinstance(v, Arr) and v.kind == "masked" else E
            ix_ = idx.info if isinstance(idx, Other) and idx.tag == "index" and isinstance(idx.info, Arr) else idx
            if isinstance(ix_, Arr) and ix_.isbool and ix_.validM:
                # the selection leaves out every cell missing in those inputs: their missing cells stay missing in the target
                M = base.M & (ix_.validM | vM | (ix_.M if ix_.kind == "masked" else E))
            elif isinstance(idx, Arr) and idx.isbool and idx.kind == "masked":
                M = base.M & (idx.M | vM)
            elif isinstance(idx, Other) and idx.tag == "slice" and idx.info == (None, None) and isinstance(v, Arr) and v.kind == "masked":
                M = v.M
            else:
                M = base.M & vM
        for x in (idx, v):
            if isinstance(x, Arr):
                D |= x.D
                Pc |= x.Pc
                Pg |= x.Pg
                if x.kind == "plain" and not x.isbool and x.dataof:
                    Pc |= x.D  # raw data written cell-wise
                if x.isbool and x.kind == "masked":
                    Pc |= x.D  # A9: hidden comparison results select cells
                if x.isbool and x.kind == "plain" and x.Pc:
                    Pc |= x.D
                if x is idx and not x.isbool and x.shape == "same":
                    self.finding("equivariance", tnode, "array used as positional index", fr)
            elif isinstance(x, Scal):
                D |= x.D
                Pg |= x.Pg
            elif isinstance(x, Other) and x.tag == "index1":
                a = x.info
                D |= a.D
                if x is idx and base.shape == "same":
                    self.finding("equivariance", tnode, "`%s` is indexed with one component of numpy.where(...): for rank >= 2 whole rows/slabs are selected instead of cells" % _src(tnode), fr)
            elif isinstance(x, Other) and x.tag == "index":
                a = x.info
                D |= a.D
                Pc |= a.Pc | (a.D if a.kind == "plain" and a.Pc else E)
                Pg |= a.Pg
            elif isinstance(x, Other) and x.tag == "slice" and x is idx:
                lo_, hi_ = x.info
                if (lo_ is not None or hi_ is not None) and base.shape == "same":
                    self.finding("equivariance", tnode, "positional slice store on a data axis: %s" % _src(tnode), fr)
            elif isinstance(x, Lst) and x is idx and base.shape == "same":
                self.finding("equivariance", tnode, "positional index store on data axes: %s" % _src(tnode), fr)
            elif isinstance(x, Scal) and x is idx and base.shape == "same":
                self.finding("equivariance", tnode, "positional index store on a data axis: %s" % _src(tnode), fr)
        ung = base.unguarded
        if ung and isinstance(idx, Arr) and idx.isbool and idx.kind == "plain" and idx.cmp is not None and len(idx.cmp) > 3 and idx.cmp[1] in ("LtE", "Eq") \
                and isinstance(v, Scal) and v.const is not None and idx.cmp[2] and idx.cmp[2][0] == "c" and idx.cmp[2][1] == v.const:
            # q[filled(sel <= bound, False)] = bound, with a PLAIN boolean index: the store puts the bound where the quotient was 0/0
            # and clears the mask the division left there (a masked comparison as index would leave those cells missing, A9)
            ung = ung - {idx.cmp[3]}
        return replace(base, D=D, Pc=Pc, Pg=Pg, rng=rng, M=M, unguarded=ung)

    def aug(self, s, fr):
        tv = self.ev(s.target, fr)
        ov = self.ev(s.value, fr)
        if isinstance(tv, Arr):
            self.write_site(tv, s, "in-place %s on %s" % (type(s.op).__name__, _src(s.target)), fr)
            self.dtype_check(tv, ov, s, fr)
            if isinstance(s.op, (ast.Div, ast.FloorDiv, ast.Mod)):
                self.res.divisions.append((s.lineno, tv, ov, s, self.fkey(fr)))
            new = self.binop_arr(tv, ov, s.op, s, fr, inplace=True)
            if isinstance(s.target, ast.Name):
                self.rebind(s.target, tv, new, fr)
            elif isinstance(s.target, (ast.Subscript, ast.Attribute)):
                self.rebind(s.target, tv, new, fr)
            else:
                self.unsupported("augmented assignment target", s, fr)
        elif isinstance(tv, Scal):
            r = self.binop(tv, ov, s.op, s, fr)
            self.assign(s.target, r, fr, s)
        elif isinstance(tv, Lst):
            if isinstance(s.target, ast.Name):
                fr.env[s.target.id] = Lst("opaque") if tv.what != "nums" else tv
        elif isinstance(tv, Other):
            pass
        else:
            self.unsupported("augmented assignment on %r" % (tv,), s, fr)

    def _result_type_guard(self, test, aug, fr):
        """`numpy.result_type(T, O) == T.dtype` (either order, also promote_types on the .dtype's) for the target T and operand O of `aug`"""
        if not (isinstance(test, ast.Compare) and len(test.ops) == 1 and isinstance(test.ops[0], ast.Eq)):
            return False
        t_src, o_src = _src(aug.target), _src(aug.value)
        for call, other in ((test.left, test.comparators[0]), (test.comparators[0], test.left)):
            if isinstance(call, ast.Call) and (self.q(call.func, fr) or "") in ("numpy.result_type", "numpy.promote_types") and len(call.args) == 2 and not call.keywords:
                args = {_src(a_)[:-6] if _src(a_).endswith(".dtype") else _src(a_) for a_ in call.args}
                if args == {t_src, o_src} and _src(other) == t_src + ".dtype":
                    return True
        return False

    def dtype_check(self, tv, ov, s, fr):
        """A4: an augmented operator keeps the target's dtype; numpy refuses a non-same_kind cast"""
        if isinstance(s.op, (ast.BitOr, ast.BitAnd, ast.BitXor)):
            return
        if id(s) in self.__dict__.get("_dtype_guarded", ()) and not isinstance(s.op, ast.Div):
            return  # first statement under `if numpy.result_type(target, operand) == target.dtype:` - the target's type holds the result exactly
        if isinstance(ov, (Arr, Scal)):
            odt = ov.dt
        else:
            odt = IF_
        oprov = getattr(ov, "dtprov", E)
        bad = None
        if isinstance(s.op, ast.Div) and ("i" in tv.dt or "b" in tv.dt):
            bad = "true division in place on a target that may be integer"
        for kt in tv.dt:
            for ko in odt:
                if RANK[ko] > RANK[kt] and not (tv.dtprov and tv.dtprov == oprov and len(tv.dtprov) == 1):
                    bad = bad or "target may be %s while the operand may be %s" % (_DT[kt], _DT[ko])
        if bad:
            self.res.findings.append(("dtype", s.lineno, "in-place `%s`: %s (target dtype from %s); numpy keeps the target dtype and refuses the cast, so the outcome depends on the element types and order of the inputs"
                                      % (_src(s), bad, sorted(tv.dtprov) or "a fresh array"), self.fkey(fr), s))

    def truth(self, v, node, fr):
        if isinstance(v, Scal) and v.sym and v.sym.startswith("kw:") and v.const is None:
            self.finding("numtruth", node, "the numeric parameter `%s` is tested for truthiness (`%s`): an explicit 0 is treated as if the argument had not been given" % (v.sym[3:], _src(node)), fr)
        if isinstance(v, Arr):
            self.res.truths.append((getattr(node, "lineno", 0), node, self.fkey(fr)))
            self.finding("truth", node, "array used in a boolean context (ambiguous truth value, A19): %s" % _src(node), fr)


_DT = {"b": "boolean", "i": "integer", "f": "floating"}


def _src(node):
    try:
        return " ".join(ast.unparse(node).split())[:120]
    except Exception:
        return type(node).__name__


# =====================================================================================================
# Part 4: expressions
# =====================================================================================================
POSITIONAL_METHODS = {"reshape", "ravel", "flatten", "cumsum", "cumprod", "argsort", "argmax", "argmin", "take", "put", "repeat",
                      "swapaxes", "squeeze", "resize", "diagonal", "trace", "nonzero", "searchsorted", "partition", "tolist", "item", "flat"}
REDUCERS = {"min", "max", "mean", "std", "var", "sum", "prod", "ptp", "any", "all", "count", "median"}
MUTATORS = {"sort", "soften_mask", "harden_mask", "fill", "resize", "put", "itemset", "partition", "setflags", "unshare_mask", "shrink_mask", "byteswap", "__setitem__", "__iadd__", "set_fill_value"}


class ArrayInterp(Interp):
    def ev(self, e, fr):
        env = fr.env
        if isinstance(e, ast.Constant):
            if isinstance(e.value, bool):
                return Other("bool", e.value)
            if isinstance(e.value, (int, float)):
                return Scal(dt=I_ if isinstance(e.value, int) else F_, const=e.value)
            if isinstance(e.value, str):
                return Other("str", e.value)
            if e.value is None:
                return Other("none")
            return Other("opaque")
        if isinstance(e, ast.Name):
            if e.id in env:
                return env[e.id]
            r = self.idx.resolve(fr.module, e, fr.func)
            if r is not None and r[0] == "const":
                if self.is_state(r[1], r[2]):
                    self.finding("global-state", e, "module-level state `%s` (mutated by some function) is used: the outcome depends on what ran earlier in the process" % e.id, fr)
                    return Other("opaque")
                return self.ev_static(r[1], r[1].consts.get(r[2]), ("const", r[1].name, r[2]), single=self.idx._single_assignment(r[1], r[2]))
            qn = self.q(e, fr)
            if qn in ("builtins.float", "builtins.int", "builtins.bool"):
                return Other("type", qn)
            return Other("global", qn or e.id)
        if isinstance(e, ast.Attribute):
            return self.ev_attr(e, fr)
        if isinstance(e, ast.Subscript):
            return self.ev_sub(e, fr)
        if isinstance(e, ast.Call):
            return self.ev_call(e, fr)
        if isinstance(e, ast.BinOp):
            a, b = self.ev(e.left, fr), self.ev(e.right, fr)
            if isinstance(e.op, (ast.Div, ast.FloorDiv, ast.Mod)) and (isinstance(a, Arr) or isinstance(b, Arr)):
                self.res.divisions.append((e.lineno, a, b, e, self.fkey(fr)))
            if isinstance(a, Arr) and isinstance(b, Arr):
                self.res.binops.append((e, type(e.op).__name__, a.D, b.D, self.fkey(fr)))
            return self.binop(a, b, e.op, e, fr)
        if isinstance(e, ast.UnaryOp):
            v = self.ev(e.operand, fr)
            if isinstance(e.op, ast.Not):
                self.truth(v, e.operand, fr)
                st = self.static_truth(v)
                return Other("bool", (not st) if st is not None else None)
            if isinstance(v, Arr):
                if isinstance(e.op, ast.Invert):
                    return replace(v, alias=self.S(e), rng=(None, None), cmp=negate_cmp(v.cmp), maskof=E, dataof=E, validof=v.maskof if v.isbool else E,
                                   M=E if (v.isbool and v.maskof) else v.M)
                return replace(v, alias=self.S(e), rng=(None, None), cmp=None, maskof=E, dataof=E, sel=None)
            if isinstance(v, Scal):
                c = None
                if v.const is not None and isinstance(e.op, ast.USub):
                    c = -v.const
                elif isinstance(e.op, ast.UAdd):
                    c = v.const
                sym = None
                if v.sym:
                    sym = v.sym[1:] if v.sym.startswith("-") else "-" + v.sym
                    if isinstance(e.op, ast.UAdd):
                        sym = v.sym
                return Scal(D=v.D, Pg=v.Pg, dt=v.dt, const=c, sym=sym)
            return v
        if isinstance(e, ast.Compare):
            vals = [self.ev(e.left, fr)] + [self.ev(c, fr) for c in e.comparators]
            arrs = [v for v in vals if isinstance(v, Arr)]
            if arrs and not any(isinstance(o, (ast.In, ast.NotIn, ast.Is, ast.IsNot)) for o in e.ops):
                return self.compare_arr(vals, type(e.ops[0]).__name__, e, fr)
            if any(isinstance(o, (ast.In, ast.NotIn)) for o in e.ops) and isinstance(vals[1], Kw) and isinstance(e.left, ast.Constant):
                k = e.left.value
                if k in vals[1].d and k not in vals[1].optional:
                    return Other("bool", isinstance(e.ops[0], ast.In))
                if k not in vals[1].d:
                    return Other("bool", isinstance(e.ops[0], ast.NotIn))
                self.res.kwreads.append((k, "in", e, self.fkey(fr), None))
                return Other("bool")
            if len(vals) == 2 and isinstance(e.ops[0], (ast.Is, ast.IsNot)) and isinstance(vals[1], Other) and vals[1].tag == "none":
                if isinstance(vals[0], Other) and vals[0].tag == "none":
                    return Other("bool", isinstance(e.ops[0], ast.Is))
                if isinstance(vals[0], (Arr, Cmd, Kw, Lst)):
                    return Other("bool", isinstance(e.ops[0], ast.IsNot))
            D = E
            Pg = E
            for v in vals:
                if isinstance(v, Scal):
                    D |= v.D
                    Pg |= v.Pg
            return Other("bool", None) if not (D or Pg) else Other("databool", Scal(D=D, Pg=Pg))
        if isinstance(e, ast.BoolOp):
            vs = [self.ev(v, fr) for v in e.values]
            for v, n in zip(vs, e.values):
                self.truth(v, n, fr)
            out = vs[0]
            for w in vs[1:]:
                out = self.join(out, w)
            return out
        if isinstance(e, ast.IfExp):
            const = self.fold(e.test) if self.fold else None
            if const is None:
                tv = self.ev(e.test, fr)
                self.truth(tv, e.test, fr)
                const = self.static_truth(tv)
            if const is True:
                return self.ev(e.body, fr)
            if const is False:
                return self.ev(e.orelse, fr)
            self.cond_stack.append((e.test, True, fr))
            try:
                vb = self.ev(e.body, fr)
            finally:
                self.cond_stack.pop()
            self.cond_stack.append((e.test, False, fr))
            try:
                vo = self.ev(e.orelse, fr)
            finally:
                self.cond_stack.pop()
            return self.join(vb, vo)
        if isinstance(e, (ast.List, ast.Tuple)):
            return Lst("mixed", items=tuple(self.ev(x, fr) for x in e.elts))
        if isinstance(e, ast.Set):
            return Other("set")
        if isinstance(e, ast.Dict):
            kw = Kw(table=True)
            for k, v in zip(e.keys, e.values):
                if k is None:
                    o = self.ev(v, fr)
                    if isinstance(o, Kw):
                        kw.d.update(o.d)
                        kw.optional |= o.optional
                    continue
                kw.d[self.const_key(k, fr)] = self.ev(v, fr)
            return kw
        if isinstance(e, (ast.ListComp, ast.GeneratorExp, ast.SetComp)):
            return self.ev_comp(e, fr)
        if isinstance(e, ast.DictComp):
            return Other("dict")
        if isinstance(e, ast.Lambda):
            return Other("lambda", e)
        if isinstance(e, ast.Slice):
            return Other("slice", (e.lower and self.ev(e.lower, fr), e.upper and self.ev(e.upper, fr), e.step and self.ev(e.step, fr))[:2] if e.step is None else (Other("opaque"), Other("opaque")))
        if isinstance(e, ast.Starred):
            return self.ev(e.value, fr)
        if isinstance(e, ast.JoinedStr):
            for v in e.values:
                if isinstance(v, ast.FormattedValue):
                    self.ev(v.value, fr)
            return Other("str")
        if isinstance(e, ast.NamedExpr):
            v = self.ev(e.value, fr)
            self.assign(e.target, v, fr, e)
            return v
        self.unsupported("expression %s" % type(e).__name__, e, fr)

    def switch_cases(self, sw, fr):
        """iterate the cases of a table lookup, each evaluated under the synthetic condition `key == entry`"""
        keynode, items = sw.info
        self._switch_depth = getattr(self, "_switch_depth", 0)
        pushed = False
        for k, v in items:
            if pushed:
                self.cond_stack.pop()
            test = ast.Compare(left=keynode, ops=[ast.Eq()], comparators=[ast.Constant(value=k)])
            ast.copy_location(test, keynode)
            ast.fix_missing_locations(test)
            self.cond_stack.append((test, True, fr))
            pushed = True
            yield v
        self._switch_pending = pushed

    def cond_stack_pop_switch(self):
        if getattr(self, "_switch_pending", False):
            self.cond_stack.pop()
            self._switch_pending = False

    def compare_arr(self, vals, opname, e, fr):
        """elementwise comparison with at least one array operand (`a > x`, operator.gt(a, x))"""
        arrs = [v for v in vals if isinstance(v, Arr)]
        r = arrs[0]
        for v in vals:
            if v is not r:
                r = self.binop_arr(r, v, ast.Add(), e, fr) if isinstance(r, Arr) else r
        cmp = None
        if len(vals) == 2 and isinstance(vals[0], Arr) and isinstance(vals[1], Scal) and scal_id(vals[1]) is not None:
            cmp = (vals[0].alias | vals[0].dataof, opname, scal_id(vals[1]), vals[0].sel)
        elif len(vals) == 2 and isinstance(vals[1], Arr) and isinstance(vals[0], Scal) and scal_id(vals[0]) is not None:
            flip = {"Gt": "Lt", "Lt": "Gt", "GtE": "LtE", "LtE": "GtE"}.get(opname)
            if flip:
                cmp = (vals[1].alias | vals[1].dataof, flip, scal_id(vals[0]), vals[1].sel)
        return replace(r, isbool=True, dt=B_, alias=self.S(e), rng=(None, None), cmp=cmp, maskof=E, dataof=E, sel=None)

    def ev_static(self, module, expr, key, single=True, cls=None):
        """value of a module-level constant / class attribute: its initialiser evaluated in its defining scope"""
        memo = self.__dict__.setdefault("_static_memo", {})
        if key in memo:
            return memo[key]
        memo[key] = Other("opaque")  # cycles
        out = Other("opaque")
        if expr is not None and single:
            if isinstance(expr, ast.Call) and isinstance(expr.func, ast.Name) and expr.func.id in ("staticmethod", "classmethod") and len(expr.args) == 1:
                expr = expr.args[0]
            sfr = Frame(module, None, cls, {}, depth=90)
            try:
                out = self.ev(expr, sfr)
            except Unsupported:
                out = Other("opaque")
        if isinstance(out, Kw):
            out.static = key  # the one dict object every execution sees: a store into it outlives the call
        memo[key] = out
        return out

    # ---------------------------------------------------------------- comprehensions
    def ev_comp(self, e, fr):
        out = self._ev_comp(e, fr)
        g = e.generators[0]
        if isinstance(g.iter, ast.Name) and isinstance(fr.env.get(g.iter.id), Lst) and fr.env[g.iter.id].oneshot:
            # a generator walked here (by any(), a fold, another comprehension) is used up - possibly only in part: what a later
            # reader finds in it is not the list of inputs any more
            fr.env[g.iter.id] = Lst("opaque")
        if isinstance(e, ast.GeneratorExp) and isinstance(out, Lst) and out.what in ("arrs", "masks") and out.L:
            out = replace(out, oneshot=True)
        return out

    def _ev_comp(self, e, fr):
        g = e.generators[0]
        it = self.ev(g.iter, fr)
        if len(e.generators) != 1:
            for gg in e.generators[1:]:
                self.ev(gg.iter, Frame(fr.module, fr.func, fr.cls, _copy_env(fr.env), fr.depth))
            return Lst("opaque")
        if isinstance(e, (ast.ListComp, ast.GeneratorExp)) and isinstance(e.elt, ast.Tuple) and not g.ifs and isinstance(it, Lst) and it.what in ("cmds", "arrs") and it.L \
                and not any(isinstance(x_, ast.Starred) for x_ in e.elt.elts):
            # [(a(x), b(x)) for x in inputs] is zip([a(x) for x in inputs], [b(x) for x in inputs]): one list per component, same order
            parts = []
            for comp_ in e.elt.elts:
                sub_ = ast.copy_location(ast.ListComp(elt=comp_, generators=e.generators), e)
                parts.append(self._ev_comp(sub_, fr))
            return Lst("zip", srcs=tuple(getattr(x_, "srcs", ()) for x_ in parts), zipped=tuple(parts))
        if isinstance(it, Lst) and it.what == "zip" and it.zipped and not g.ifs and isinstance(e.elt, ast.Name) and isinstance(g.target, ast.Tuple) \
                and len(g.target.elts) == len(it.zipped) and all(isinstance(x_, ast.Name) for x_ in g.target.elts):
            # [b for a, b in zip(A, B)] is B
            names_ = [x_.id for x_ in g.target.elts]
            if names_.count(e.elt.id) == 1 and isinstance(it.zipped[names_.index(e.elt.id)], Lst):
                return it.zipped[names_.index(e.elt.id)]
        elem = self.elem_of(it, g.iter, fr)
        f2 = Frame(fr.module, fr.func, fr.cls, _copy_env(fr.env), fr.depth)
        f2.returns = fr.returns
        self.assign(g.target, elem, f2, e)
        filtered = bool(g.ifs)
        for c in g.ifs:
            self.truth(self.ev(c, f2), c, f2)
        v = self.ev(e.elt, f2)
        if isinstance(it, Lst) and it.what in ("cmds", "arrs", "masks") and it.L and isinstance(v, Arr):
            if filtered:
                self.finding("filtered-inputs", e, "inputs are filtered before use: %s" % _src(e), fr)
            t = toks(it.L, it.part)
            gen = lambda s: frozenset("ELEM" if x in t else x for x in s)  # noqa: E731
            Mt = gen(v.M)
            if it.part == "all" and v.kind == "masked" and len(t) > 1 and t <= v.M and not filtered:
                # does every element get a mask that covers ALL the inputs (the union mask handed to each layer), or its own?  The
                # element stands for any input, so evaluate the body once more for the FIRST input only: what it still covers of the
                # others does not come from the element
                try:
                    f3 = Frame(fr.module, fr.func, fr.cls, _copy_env(fr.env), fr.depth)
                    f3.returns = fr.returns
                    self.assign(g.target, self.elem_of(replace(it, part="first"), g.iter, fr), f3, e)
                    v1 = self.ev(e.elt, f3)
                    if isinstance(v1, Arr) and t <= v1.M:
                        Mt = v.M  # kept as the explicit tokens: not the element's own mask
                except Unsupported:
                    pass
            tmpl = replace(v, alias=gen(v.alias), M=Mt, D=gen(v.D), Pc=gen(v.Pc), Pg=gen(v.Pg), dtprov=gen(v.dtprov), maskof=gen(v.maskof), dataof=gen(v.dataof), maskalias=gen(v.maskalias))
            return Lst("masks" if (v.isbool and v.maskof) else "arrs", L=it.L, part=it.part, elem=tmpl, sorted_=it.sorted_)
        if isinstance(it, Lst) and it.what == "zip" and isinstance(v, Arr) and not filtered:
            # [f(x, w) for x, w in zip(inputs, weights)]: one array per input, in the order of the inputs
            ms_ = [z_ for z_ in it.zipped if isinstance(z_, Lst) and z_.what in ("cmds", "arrs", "masks") and z_.L]
            if len(ms_) == 1:
                m_ = ms_[0]
                t = toks(m_.L, m_.part)
                if t & (v.D | v.alias | v.M):
                    gen = lambda s_: frozenset("ELEM" if x in t else x for x in s_)  # noqa: E731
                    tmpl = replace(v, alias=gen(v.alias), M=gen(v.M), D=gen(v.D), Pc=gen(v.Pc), Pg=gen(v.Pg), dtprov=gen(v.dtprov), maskof=gen(v.maskof), dataof=gen(v.dataof), maskalias=gen(v.maskalias))
                    return Lst("masks" if (v.isbool and v.maskof) else "arrs", L=m_.L, part=m_.part, elem=tmpl, sorted_=m_.sorted_)
        if isinstance(it, Lst) and it.what == "range" and it.sliced is not None and isinstance(v, Arr) and not filtered:
            # an index walk over a whole input list: [f(xs[i]) for i in range(k, len(xs))] is the list [f(x) for x in xs[k:]]
            part = "rest" if it.sliced[0] == 1 else "all"
            lists = {x.split("#")[0] for x in v.D | v.M | v.alias if "#" in x and not x.startswith("fresh@")}
            if len(lists) == 1:
                L = next(iter(lists))
                t = toks(L, part)
                if t <= (v.D | v.alias):
                    gen = lambda s_: frozenset("ELEM" if x in t else x for x in s_)  # noqa: E731
                    tmpl = replace(v, alias=gen(v.alias), M=gen(v.M), D=gen(v.D), Pc=gen(v.Pc), Pg=gen(v.Pg), dtprov=gen(v.dtprov), maskof=gen(v.maskof), dataof=gen(v.dataof), maskalias=gen(v.maskalias))
                    return Lst("masks" if (v.isbool and v.maskof) else "arrs", L=L, part=part, elem=tmpl)
        if isinstance(v, Other) and v.tag == "dtype" and isinstance(v.info, Arr) and isinstance(it, Lst) and it.what in ("arrs", "cmds") and it.part == "all" and not filtered:
            # [x.dtype for x in inputs]: the element types of all of them
            whole = self.part_elem(replace(it, what="arrs")) if it.what == "arrs" else None
            return Lst("dtypes", elem=Other("dtype", whole if isinstance(whole, Arr) else v.info))
        if isinstance(v, Scal):
            D = v.D
            Pg = v.Pg
            return Lst("nums", srcs=("derived",) + tuple(getattr(it, "srcs", ())), elem=Scal(D=D, Pg=Pg, dt=v.dt, rng=v.rng, sym=v.sym if (v.sym or "").startswith("clamped(") else None))
        members = [it] + list(getattr(it, "zipped", ()) or ())
        def _holds_input(v_):
            if isinstance(v_, Arr):
                return any(is_input_token(t_) for t_ in v_.alias)
            if isinstance(v_, Lst) and v_.items:
                return any(_holds_input(x_) for x_ in v_.items)
            return False

        if any(isinstance(m_, Lst) and m_.what in ("cmds", "arrs") and m_.L for m_ in members) and (filtered or isinstance(v, Lst)) and _holds_input(v):
            # the input arrays regrouped (pairs with their weights, say) or filtered into a new list: which inputs are left, and in
            # which roles, is not followed from here
            self.unsupported("a comprehension that regroups or filters the input list (%s)" % _src(e)[:60], e, fr)
        return Lst("opaque")

    # ---------------------------------------------------------------- attributes
    def ev_attr(self, e, fr):
        base = self.ev(e.value, fr)
        a = e.attr
        if isinstance(base, Cmd):
            if a == "result":
                t = toks(base.p, base.part) if base.part else frozenset({base.p})
                self.res.pulled.add(base.p)
                return self.input_arr(t, base.p)
            if a in ("result_name", "name", "display_name"):
                return Other("str")
            if a in ("lineno",):
                return Scal(dt=I_)
            self.res.effects.append(("dependency-read", e.lineno, _src(e), self.fkey(fr)))
            return Other("opaque")
        if isinstance(base, Arr):
            if a == "data":
                return replace(base, kind="plain", M=E, Pc=base.Pc | base.D, rng=(None, None), dataof=base.alias | base.dataof, maskof=E, cmp=None)
            if a == "mask":
                return Arr(kind="plain", isbool=True, alias=base.alias, M=base.M, D=E, shape=base.shape, dt=B_, maskof=base.alias | base.dataof, constmask=base.constmask, layermask=base.layermask)
            if a == "flags":
                # contiguity / ownership / writability: what ravel(), reshape() or a view does then depends on how the array
                # happens to be stored, which no abstract value here describes
                self.unsupported("a decision on the storage layout of an array (`%s`)" % _src(e), e, fr)
            if a == "shape":
                return Lst("shape", srcs=(base.shape,))
            if a in ("dtype",):
                return Other("dtype", base)
            if a in ("size", "ndim", "itemsize", "nbytes"):
                return Scal(dt=I_)
            if a == "fill_value":
                return Scal(sym="fill_value")
            if a == "T":
                if base.shape == "same":
                    self.finding("equivariance", e, "transpose rearranges cells: %s" % _src(e), fr)
                return replace(base, shape="unknown")
            if a in ("real", "imag"):
                return base
            return Other("method", (base, a, e.value))
        if isinstance(base, Other) and base.tag == "self":
            if a == "lineno":
                return Scal(dt=I_)
            if a == "argument_lines":
                return Other("dictobj")
            if a in ("result_name", "name", "display_name"):
                return Other("str")
            if a in ("result", "_result"):
                self.finding("selfresult", e, "execute evaluates `%s` on its own unfinished instance" % _src(e), fr)
                self.res.selfreads.append((e.lineno, a, e, self.fkey(fr)))
                return Arr(kind="unknown", alias=frozenset({"self"}), shape="unknown")
            cls = fr.cls
            if cls is not None:
                m = self.idx.find_method(cls, a)
                if m is not None:
                    return Other("selfmethod", (a, m))
            # a class attribute of the command class being analysed (constant table, operator slot, ...)
            c0, cexpr = self.idx.find_attr(self.decl.cls, a)
            if c0 is not None and a not in ("inputs", "output", "is_fuzzy", "name", "display_name", "allow_extra_inputs"):
                stores = [n for f in self.idx.funcs for n in ast.walk(f.node) if isinstance(n, ast.Attribute) and n.attr == a and isinstance(n.ctx, (ast.Store, ast.Del))]
                if not stores:
                    return self.ev_static(c0.module, cexpr, ("classattr", c0.qual, a), cls=c0)
            self.res.selfreads.append((e.lineno, a, e, self.fkey(fr)))
            return Other("opaque", "self." + a)
        if isinstance(base, Kw):
            if a in ("get", "update", "pop", "copy", "items", "keys", "values", "setdefault"):
                return Other("kwmethod", (base, a))
            self.unsupported("kwargs attribute %s" % a, e, fr)
        if isinstance(base, Other) and base.tag == "global":
            r = self.idx.resolve(fr.module, e, fr.func) if fr.func is not None or fr.module is not None else None
            if r is not None and r[0] == "classattr":
                return self.ev_static(r[1].module, r[1].attrs[r[2]], ("classattr", r[1].qual, r[2]), cls=r[1])
            if r is not None and r[0] == "const":
                if self.is_state(r[1], r[2]):
                    self.finding("global-state", e, "module-level state `%s` (mutated by some function) is used: the outcome depends on what ran earlier in the process" % _src(e), fr)
                    return Other("opaque")
                return self.ev_static(r[1], r[1].consts.get(r[2]), ("const", r[1].name, r[2]), single=self.idx._single_assignment(r[1], r[2]))
            qn = self.q(e, fr)
            if qn in ("numpy.ma.nomask", "numpy.ma.core.nomask") and isinstance(fr.env.get("__nomissing__"), Arr):
                return fr.env["__nomissing__"]
            return Other("global", qn or (str(base.info) + "." + a))
        if isinstance(base, Other) and base.tag == "dictobj" and a == "get":
            return Other("fn", "dictget")
        if isinstance(base, Other) and base.tag == "dtype":
            return Other("opaque", "dtype." + a)
        if isinstance(base, Lst):
            return Other("lstmethod", (base, a, e.value))
        if isinstance(base, Scal):
            return Other("scalmethod", (base, a))
        if isinstance(base, Other):
            return Other("opaque", a)
        self.unsupported("attribute .%s on %r" % (a, base), e, fr)

    # ---------------------------------------------------------------- subscripts
    def ev_sub(self, e, fr):
        base = self.ev(e.value, fr)
        if isinstance(base, Kw) and base.table and base.d and not isinstance(e.slice, ast.Constant):
            kv = self.ev(e.slice, fr)
            if not (isinstance(kv, Other) and kv.tag == "str" and isinstance(kv.info, str)):
                # a lookup table indexed by a run-time key: one case per entry, each under the condition `key == entry`
                return Other("switch", (e.slice, tuple(base.d.items())))
        if isinstance(base, Kw):
            k = self.const_key(e.slice, fr)
            self.res.kwreads.append((k, "[]", e, self.fkey(fr), None))
            if k in base.d:
                return base.d[k]
            self.finding("kwkey", e, "kwargs[%r] is read but `%s` is not a declared input of %s" % (k, k, self.decl.cls.name), fr)
            return Other("opaque")
        if isinstance(base, Arr) and base.shape == "stackedlast":
            # the layer axis is the LAST one (numpy.moveaxis(stack, 0, -1)): `x[..., i]` is what `stack[i]` is, for every rank
            sl = e.slice
            if isinstance(sl, ast.Tuple) and len(sl.elts) == 2 and isinstance(sl.elts[0], ast.Constant) and sl.elts[0].value is Ellipsis:
                got = self.sub_arr(replace(base, shape="stacked"), self.ev(sl.elts[1], fr), e, fr)
                if isinstance(got, Arr) and got.shape == "stacked":
                    got = replace(got, shape="stackedlast")
                return got
            self.finding("equivariance", e, "`%s` indexes the leading DATA axis of a stack whose layer axis was moved last" % _src(e), fr)
            return replace(base, shape="unknown")
        idx = self.ev(e.slice, fr)
        if isinstance(idx, Other) and idx.tag == "switch" and isinstance(base, (Lst, Arr)):
            out = None
            for case in self.switch_cases(idx, fr):
                v = self.sub_list(base, case, e, fr) if isinstance(base, Lst) else self.sub_arr(base, case, e, fr)
                out = v if out is None else self.join(out, v)
            self.cond_stack_pop_switch()
            return out
        if isinstance(base, Lst):
            return self.sub_list(base, idx, e, fr)
        if isinstance(base, Arr):
            return self.sub_arr(base, idx, e, fr)
        if isinstance(base, Other):
            if base.tag == "index":
                return Other("index1", base.info)
            if base.tag == "ncds":
                return Other("ncvar")
            if base.tag == "ncvar":
                # the variable's own missing cells (its _FillValue mask) are tracked by the pseudo-token "file"
                return Arr(kind="masked", alias=self.S(e), filearr=True, dt=IF_, dtprov=frozenset({"file"}), shape="same", M=frozenset({"file"}), D=frozenset({"file"}))
            return Other("opaque")
        if isinstance(base, Scal):
            return Scal(D=base.D, Pg=base.Pg)
        self.unsupported("subscript on %r" % (base,), e, fr)

    def sub_list(self, base, idx, e, fr):
        if isinstance(idx, Other) and idx.tag == "slice" and not (isinstance(idx.info, tuple) and len(idx.info) == 2):
            idx = Other("slice", (Other("opaque"), Other("opaque")))
        is_slice = isinstance(idx, Other) and idx.tag == "slice"
        if base.items is not None:
            if isinstance(idx, Scal) and isinstance(idx.const, int) and -len(base.items) <= idx.const < len(base.items):
                return base.items[idx.const]
            if is_slice:
                return base if base.what != "mixed" else Lst("mixed", items=base.items)
            return self.elem_of(base, e, fr)
        if base.what in ("arrs", "cmds", "masks") and isinstance(idx, Scal) and idx.sym in ("idx@0", "idx@1") and base.part == "all":
            # element chosen by the loop index of `for i in range(start, len(...))`: the generic element of that part
            sub = replace(base, part="rest" if idx.sym == "idx@1" else "all")
            return self.part_elem(sub) if base.what != "cmds" else Cmd(base.L, sub.part)
        if base.what in ("arrs", "cmds", "masks"):
            if isinstance(idx, Scal) and idx.const == 0 and base.part == "all":
                sub = replace(base, part="first")
                return self.part_elem(sub) if base.what != "cmds" else Cmd(base.L, "first")
            if is_slice:
                lo, hi = idx.info
                if isinstance(lo, Scal) and lo.const == 1 and hi is None and base.part == "all":
                    return replace(base, part="rest", argobj=None)
                if lo is None and hi is None:
                    return replace(base, argobj=None)
                if isinstance(lo, Scal) and lo.const == 0 and hi is None:
                    return replace(base, argobj=None)
            # first, second and the others (`xs[0] op xs[1]`, then `for x in xs[2:]`): a three-way split the first/rest model of an
            # input list cannot follow - no verdict once both the second element and the tail from the third are read
            seen3 = self.__dict__.setdefault("_three_way", {})
            kind3 = "second" if (isinstance(idx, Scal) and idx.const == 1) else "tail" if (is_slice and isinstance(idx.info[0], Scal) and idx.info[0].const == 2 and idx.info[1] is None) else None
            msg3 = "input list consumed through `%s`: inputs do not play symmetric roles / some may be dropped" % _src(e)
            if kind3 and base.part == "all":
                # decided when the body has been walked (see run()): both kinds read -> no verdict, otherwise the finding stands
                seen3.setdefault((self.fkey(fr), base.L), []).append((kind3, e, msg3, fr))
            else:
                self.finding("list-index", e, msg3, fr)
            if is_slice:
                return replace(base, part="rest" if base.part == "all" else base.part, argobj=None)
            return self.part_elem(replace(base, part="first" if base.part == "all" else base.part)) if base.what != "cmds" else Cmd(base.L, "first")
        if base.what == "nums":
            if is_slice:
                lo, hi = idx.info
                return replace(base, sliced=(lo.const if isinstance(lo, Scal) else None, hi.const if isinstance(hi, Scal) else None), argobj=None)
            el = base.elem if isinstance(base.elem, Scal) else Scal()
            which = "?"
            if isinstance(idx, Scal):
                which = idx.const if idx.const is not None else (idx.sym if idx.sym in ("idx@0", "idx@1") else "?")
            return Scal(D=el.D, Pg=el.Pg, dt=el.dt, sym="%s[%s]" % (",".join(base.srcs), which))
        if base.what == "pairs":
            if is_slice:
                return base
            return Lst("mixed", items=(Scal(sym="raw", D=getattr(base.elem, "D", E), Pg=getattr(base.elem, "Pg", E)), Scal(sym="normal")))
        if base.what == "shape":
            if is_slice and base.srcs and base.srcs[0] == "stacked" and isinstance(idx, Other) and idx.tag == "slice" and isinstance(idx.info[0], Scal) and idx.info[0].const == 1 and idx.info[1] is None:
                return Lst("shape", srcs=("same",))  # (layers, *cells)[1:] is the shape of one layer
            return base if is_slice else Scal(dt=I_)
        if base.what == "zip" and is_slice and base.zipped:
            # a slice of a zip slices every zipped sequence alike
            parts = tuple(self.sub_list(z, idx, e, fr) if isinstance(z, Lst) else z for z in base.zipped)
            return replace(base, zipped=parts)
        if base.what in ("enum", "opaque", "zip", "range", "mixed"):
            return base if is_slice else self.elem_of(base, e, fr)
        self.unsupported("index into %r" % (base,), e, fr)

    def sub_arr(self, base, idx, e, fr):
        if isinstance(idx, Other) and idx.tag == "slice" and isinstance(idx.info, tuple) and len(idx.info) == 2 and idx.info[0] == "alts":
            out = None
            saved = self.cond_stack
            for cs, inf in idx.info[1]:
                self.cond_stack = list(saved) + [c for c in cs if c not in saved]
                try:
                    r_ = self.sub_arr(base, Other("slice", inf), e, fr)
                finally:
                    self.cond_stack = saved
                out = r_ if out is None else self.join(out, r_)
            return out
        if isinstance(idx, Other) and idx.tag == "slice" and not (isinstance(idx.info, tuple) and len(idx.info) == 2):
            idx = Other("slice", (Other("opaque"), Other("opaque")))  # a slice whose bounds differ between the paths that reach here
        is_slice = isinstance(idx, Other) and idx.tag == "slice"
        if base.shape == "stackedflat":
            # a layer (or a run of layers) of the flattened stack: still flattened - only reshape(<grid shape>) restores the grid
            as_stacked = self.sub_arr(replace(base, shape="stacked"), idx, e, fr)
            if isinstance(as_stacked, Arr):
                return replace(as_stacked, shape={"same": "raveled", "stacked": "stackedflat"}.get(as_stacked.shape, "unknown"))
            return as_stacked
        if base.shape in ("stacked", "rankdep"):
            if base.shape == "rankdep":
                self.finding("shape", e, "layer index on a rank-dependent stack (numpy.vstack concatenates along the first data axis for rank >= 2, A10): %s" % _src(e), fr)
            sel = None
            if isinstance(idx, Scal) and isinstance(idx.const, int):
                sel = ("Top", -idx.const) if idx.const < 0 else ("Bottom", idx.const + 1)
                if not base.sorted0:
                    sel = ("Layer", idx.const)
                self.res.layer_reads.append((e, sel, base.sorted0, self.fkey(fr), tuple((t, p) for t, p, _ in self.cond_stack)))
                return replace(base, shape="same" if base.shape == "stacked" else "unknown", sel=sel, alias=base.alias, M=E if base.layermask else base.M, layermask=False)
            if is_slice:
                lo, hi = idx.info
                if lo is not None and hi is None and isinstance(lo, Scal) and lo.sym and lo.sym.startswith("rest("):
                    sel = ("TopK", lo.sym[5:-1])  # [n-k:] of n layers: the last k
                elif lo is None and isinstance(hi, Scal) and hi.sym and hi.sym.startswith("-rest("):
                    sel = ("BottomKOrNone", hi.sym[6:-1])  # [:-(n-k)]: the first k, but nothing at all when k = n (-0 is 0)
                elif lo is not None and hi is None and isinstance(lo, Scal) and lo.sym and lo.sym.startswith("-"):
                    sel = ("TopK", lo.sym[1:])
                elif lo is not None and hi is None and isinstance(lo, Scal) and isinstance(lo.const, int) and lo.const < 0:
                    sel = ("TopK", -lo.const)
                elif lo is None and isinstance(hi, Scal) and hi.sym and not hi.sym.startswith("-"):
                    sel = ("BottomK", hi.sym)
                elif lo is None and isinstance(hi, Scal) and isinstance(hi.const, int) and hi.const > 0:
                    sel = ("BottomK", hi.const)
                elif lo is None and hi is None:
                    return base
                else:
                    sel = ("?", _src(e.slice))
                if not base.sorted0:
                    sel = ("UnsortedSlice", _src(e.slice))
                self.res.layer_reads.append((e, sel, base.sorted0, self.fkey(fr), tuple((t, p) for t, p, _ in self.cond_stack)))
                return replace(base, sel=sel, alias=base.alias)
            if isinstance(idx, Arr) and idx.isbool:
                return replace(base, shape="flat", alias=self.S(e), D=base.D | idx.D)
            return replace(base, shape="unknown", sel=("?", _src(e.slice)))
        if isinstance(idx, Arr) and idx.isbool:
            pc = base.Pc | (idx.D if idx.kind == "masked" else idx.Pc)
            kp = None
            if idx.cmp is not None and idx.cmp[1] in ("Lt", "LtE", "Gt", "GtE") and idx.cmp[2] is not None and (idx.cmp[0] & (base.alias | base.dataof)):
                kp = (idx.cmp[1], idx.cmp[2], frozenset(base.alias))  # x[x <op> s]: the cells of x on that side of s
            return replace(base, shape="flat", alias=self.S(e), D=base.D | idx.D, Pc=pc, rng=(None, None), cmp=None, maskof=E,
                           dataof=E, M=base.M if base.kind == "masked" else E, keeps=kp)
        if isinstance(idx, Other) and idx.tag == "index1":
            if base.shape == "same":
                self.finding("equivariance", e, "`%s` is indexed with one component of numpy.where(...): for rank >= 2 whole rows/slabs are selected instead of cells" % _src(e), fr)
            return replace(base, alias=self.S(e), D=base.D | idx.info.D, rng=(None, None), shape="unknown")
        if isinstance(idx, Other) and idx.tag == "index":
            a = idx.info
            return replace(base, alias=self.S(e), D=base.D | a.D, Pc=base.Pc | a.Pc, rng=(None, None), shape="flat" if base.shape == "same" else base.shape)
        if base.shape == "layervec" and (is_slice or (isinstance(idx, Scal) and (isinstance(idx.const, int) or idx.sym))):
            # one number per layer: an element of it is that layer's number (a weight), a slice the numbers of those layers
            if is_slice:
                return replace(base, alias=self.S(e) | base.alias, ascending=False)
            return Scal(D=base.D, Pg=base.Pg | base.Pc, dt=base.dt, masked_const_possible=base.kind == "masked", sym="layernum[%s]" % (idx.const if idx.const is not None else idx.sym))
        if is_slice:
            lo, hi = idx.info
            if lo is None and hi is None:
                return base
            if base.shape == "flat" and (lo is None) != (hi is None) and isinstance(lo if hi is None else hi, Scal) and (lo if hi is None else hi).sym and (lo if hi is None else hi).sym.startswith("pos("):
                # a sorted 1-D collection cut at one position: `x[:k]` and `x[k:]` are the two sides of that cut, every value in one
                return replace(base, alias=self.S(e) | base.alias, keeps=("Head" if lo is None else "Tail", ("s", (lo if hi is None else hi).sym), frozenset(base.alias)))
            if base.shape == "same":
                self.finding("equivariance", e, "positional slice along a data axis: %s" % _src(e), fr)
            return replace(base, shape="unknown")
        if isinstance(idx, Other) and idx.tag == "ellipsis":
            return base
        if isinstance(idx, (Scal, Lst)):
            if base.shape == "same":
                self.finding("equivariance", e, "positional index along a data axis: %s" % _src(e), fr)
            return replace(base, shape="unknown")
        if isinstance(idx, Arr) and isinstance(idx.sel, tuple) and idx.sel and idx.sel[0] == "argsort" and idx.shape == base.shape and base.shape in ("layervec", "flat"):
            # x[argsort(x)] is x in ascending order; y[argsort(x)] is y carried along with it
            return replace(base, alias=self.S(e), ascending=bool(set(idx.sel[1]) & set(base.alias)), D=base.D | idx.D, sel=None, cmp=None, maskof=E, dataof=E)
        if isinstance(idx, Arr) and isinstance(idx.sel, tuple) and idx.sel and idx.sel[0] == "inverse" and idx.shape == "raveled" and base.shape == "flat" and base.kind == "plain":
            # table[inverse]: one table entry per distinct value, looked up cell by cell (A30)
            return replace(base, shape="raveled", alias=self.S(e), D=base.D | idx.D, sel=None, cmp=None)
        if isinstance(idx, Arr):
            if base.shape == "same":
                self.finding("equivariance", e, "array used as positional index: %s" % _src(e), fr)
            return replace(base, shape="unknown", alias=self.S(e), D=base.D | idx.D)
        if isinstance(idx, Other):
            return replace(base, shape="unknown")
        self.unsupported("array index", e, fr)

    # ---------------------------------------------------------------- arithmetic
    def binop(self, a, b, op, node, fr):
        if isinstance(a, Arr) or isinstance(b, Arr):
            if isinstance(a, Arr):
                return self.binop_arr(a, b, op, node, fr)
            return self.binop_arr(b, a, op, node, fr, swapped=True)
        if isinstance(a, Scal) and isinstance(b, Scal):
            if isinstance(op, (ast.Div, ast.FloorDiv, ast.Mod)):
                self.res.scaldivs.append((getattr(node, "lineno", 0), a, b, node, self.fkey(fr)))
            const = None
            if a.const is not None and b.const is not None and isinstance(op, (ast.Add, ast.Sub, ast.Mult)):
                const = a.const + b.const if isinstance(op, ast.Add) else a.const - b.const if isinstance(op, ast.Sub) else a.const * b.const
            dt = F_ if isinstance(op, ast.Div) else promote(a.dt, b.dt)
            nonfin = a.nonfinite or b.nonfinite or (isinstance(op, (ast.Div, ast.FloorDiv, ast.Mod)) and bool(b.D or b.Pg) and b.const is None)
            sym = None
            if isinstance(op, ast.Sub) and a.sym and b.sym and a.sym.startswith("len(") and a.sym.endswith(":all)") and b.sym.startswith("kw:"):
                sym = "rest(%s)" % b.sym  # the number of inputs minus a count parameter: how many layers are left out
            elif isinstance(op, ast.Sub) and a.sym and b.sym and a.sym.startswith("len(") and a.sym.endswith(":all)") and b.sym.startswith("rest(kw:"):
                sym = b.sym[5:-1]  # n - (n - k) = k
            return Scal(D=a.D | b.D, Pg=a.Pg | b.Pg, dt=dt, const=const, nonfinite=nonfin, sym=sym)
        if isinstance(a, Lst) and isinstance(b, Lst):
            if a.what == "shape" or b.what == "shape":
                return Lst("shape", srcs=("stacked" if "same" in (a.srcs + b.srcs) else "unknown",))
            if a.items is not None and b.items is not None:
                return Lst("mixed", items=a.items + b.items)
            return a if a.items is None else b
        if isinstance(a, Other) and a.tag == "str" or isinstance(b, Other) and b.tag == "str":
            return Other("str")
        if isinstance(a, (Other, Lst, Scal)) and isinstance(b, (Other, Lst, Scal)):
            D = getattr(a, "D", E) | getattr(b, "D", E)
            Pg = getattr(a, "Pg", E) | getattr(b, "Pg", E)
            if isinstance(a, Scal) or isinstance(b, Scal):
                return Scal(D=D, Pg=Pg)
            return Other("opaque")
        self.unsupported("operator on %r and %r" % (a, b), node, fr)

    def binop_arr(self, a, b, op, node, fr, inplace=False, swapped=False):
        if isinstance(b, Scal) and b.nonfinite and a.shape in ("same", "stacked") and not isinstance(node, ast.Compare):
            # A3 masks zero divisors only for array divisions; a scalar quotient computed beforehand is inf/nan and
            # spreads over every cell of the array it is combined with
            self.finding("nonfinite", node, "`%s` combines the whole array with a scalar quotient whose divisor is computed from the data and can be 0 (a uniform field): the division happens between scalars, nothing is masked, and inf/nan (0 * inf) reaches every non-missing cell - a clamp cannot repair nan" % _src(node), fr)
        if isinstance(op, (ast.Mult, ast.Div)) and isinstance(b, Scal) and b.sym and not isinstance(node, ast.Compare):
            self.res.weight_pairs.append((node, a.D, b.sym, self.fkey(fr)))
        if isinstance(b, Scal) and isinstance(op, (ast.Add, ast.Sub, ast.Mult)) and not isinstance(node, ast.Compare) and not a.isbool and a.shape in ("same", "stacked", "stackedlast", "flat") \
                and (a.dt - F_) and (b.dt - F_) and (a.D or a.alias):
            # grid (+ - *) scalar with neither known to be floating: numpy keeps the GRID's element type (a Python or numpy integer
            # scalar does not widen an int8 / uint8 / int16 array), so the operation wraps around for narrow integer grids
            self.res.intops.append((node, a, b, self.fkey(fr)))
        kinds = [a.kind] + ([b.kind] if isinstance(b, Arr) else [])
        if inplace:
            kind = a.kind
        else:
            kind = "masked" if "masked" in kinds else ("unknown" if "unknown" in kinds else "plain")
        bD = getattr(b, "D", E)
        bM = b.M if isinstance(b, Arr) else E
        if isinstance(b, Lst) and isinstance(b.elem, Scal):
            bD = b.elem.D
        if kind == "masked":
            M = a.M | (bM if (not isinstance(b, Arr) or b.kind != "plain" or b.isbool is False) else E)
            if isinstance(b, Arr) and b.kind == "plain":
                M = a.M  # a plain operand contributes no mask
            if inplace and a.kind == "masked" and isinstance(b, Arr) and b.kind == "masked":
                M = a.M | b.M
        else:
            M = E
        if a.kind == "plain" and not inplace and isinstance(b, Arr) and b.kind == "masked":
            M = b.M
        if a.isbool and isinstance(b, Arr) and b.isbool and a.kind != "masked" and b.kind != "masked":
            # mask algebra: `m | n` is true wherever either mask is
            if isinstance(op, ast.BitOr):
                M = a.M | b.M
            elif isinstance(op, (ast.BitAnd, ast.BitXor)):
                M = a.M & b.M if isinstance(op, ast.BitAnd) else E
        Pc = a.Pc | getattr(b, "Pc", E)
        if kind == "plain":
            for x in (a, b):
                if isinstance(x, Arr) and x.kind == "masked":
                    Pc |= x.D  # a plain result consumes the hidden data of masked operands (A4)
        Pg = a.Pg | getattr(b, "Pg", E)
        if isinstance(op, ast.Div):
            dt = F_
        elif isinstance(op, (ast.BitOr, ast.BitAnd, ast.BitXor)):
            dt = a.dt
        else:
            bdt = b.dt if isinstance(b, (Arr, Scal)) else IF_
            dt = promote(a.dt, bdt)
        if inplace:
            dt = a.dt
        shape = a.shape
        if isinstance(b, Arr) and b.shape != a.shape:
            pair = {a.shape, b.shape}
            if pair == {"stacked", "layercol"}:
                shape = "stacked"  # one number per layer, broadcast over the cells of that layer (every rank)
            elif pair == {"stacked", "layercol1"} or pair == {"stacked", "layervec"}:
                shape = "rankdep"
                self.finding("shape", node, "`%s` broadcasts a per-layer vector against the stack by position: it lines up with the layer axis only for data of one particular rank (A10)" % _src(node), fr)
            else:
                shape = "unknown"
        isbool = a.isbool and isinstance(op, (ast.BitOr, ast.BitAnd, ast.BitXor))
        ung = a.unguarded | getattr(b, "unguarded", E)
        if isinstance(op, (ast.Div, ast.FloorDiv, ast.Mod)):
            divisor = a if swapped else b
            if isinstance(divisor, Arr) and divisor.sel and isinstance(divisor.sel, tuple) and divisor.sel and divisor.sel[0] in ("Top", "Bottom", "Layer"):
                ung = ung | {divisor.sel}
        cmp_ = None
        validof_ = E
        validm_ = E
        if isbool and isinstance(op, ast.BitOr) and isinstance(b, Arr) and b.isbool and (a.cmp is None) != (b.cmp is None):
            cmp_ = a.cmp if a.cmp is not None else b.cmp  # `mask | (data == v)`: true at least where the comparison holds
        elif isbool and isinstance(op, ast.BitOr) and isinstance(b, Arr) and b.isbool and a.cmp is not None and b.cmp is not None \
                and a.cmp[1] == b.cmp[1] == "Eq" and a.cmp[0] & b.cmp[0] and a.cmp[3:] == b.cmp[3:]:
            # `(data == v) | (data == w)`: equality of the same data with one of two numbers
            cmp_ = (a.cmp[0] | b.cmp[0], "Eq", ("or", a.cmp[2], b.cmp[2])) + tuple(a.cmp[3:])
        if isbool and isinstance(op, ast.BitAnd) and isinstance(b, Arr) and b.isbool:
            # `valid & (data > hi)`: true only at valid cells, and only where the comparison holds
            validof_ = a.validof | b.validof
            validm_ = a.validM | b.validM
            if (a.cmp is None) != (b.cmp is None):
                cmp_ = a.cmp if a.cmp is not None else b.cmp
        return Arr(cmp=cmp_, validof=validof_, validM=validm_, unguarded=ung, kind=kind, isbool=isbool, alias=a.alias if inplace else self.S(node), M=M, D=a.D | bD, Pc=Pc, Pg=Pg, shape=shape, dt=dt,
                   dtprov=a.dtprov if inplace else a.dtprov | getattr(b, "dtprov", E), rng=(None, None), sel=a.sel if not isinstance(b, Arr) else (a.sel, b.sel) if (a.sel or b.sel) else None,
                   sorted0=False, filearr=a.filearr, maskof=a.maskof if inplace else E, dataof=a.dataof if inplace else E,
                   constmask=a.constmask and (not isinstance(b, Arr) or b.constmask))

    # =================================================================================================
    # Part 5: calls
    # =================================================================================================
    def ev_call(self, e, fr):
        f = e.func
        qn = self.q(f, fr) if isinstance(f, (ast.Name, ast.Attribute)) else None
        if isinstance(f, ast.Name) and f.id in fr.env:
            qn = None
        self.res.calls.append((qn or _src(f), e, self.fkey(fr)))
        # super(K, self).execute(**kw)
        if isinstance(f, ast.Attribute) and isinstance(f.value, ast.Call) and isinstance(f.value.func, ast.Name) and f.value.func.id == "super":
            return self.call_super(e, fr)
        # <Command subclass>(...).execute(...): a temporary command of another class evaluated on the spot (it is not in the
        # program's table; its body runs with the keyword arguments given here)
        if isinstance(f, ast.Attribute) and f.attr == "execute" and isinstance(f.value, ast.Call) and isinstance(f.value.func, (ast.Name, ast.Attribute)):
            rc = self.idx.resolve(fr.module, f.value.func, fr.func)
            if rc and rc[0] == "class" and any(getattr(c_, "qual", None) == "mpilot.commands.Command" for c_ in self.idx.mro(rc[1])):
                m = self.idx.find_method(rc[1], "execute")
                if m is not None and not e.args:
                    # the constructor arguments only identify the temporary (name, arguments, program, line): they are handed on, not
                    # computed with - the body below sees none of them
                    for a_ in list(f.value.args) + [k_.value for k_ in f.value.keywords]:
                        if not (isinstance(a_, ast.Attribute) and isinstance(a_.value, ast.Name) and isinstance(fr.env.get(a_.value.id), Other) and fr.env[a_.value.id].tag == "self"):
                            self.ev(a_, fr)
                    self.res.fresh_executes.append((e, rc[1], self.fkey(fr)))
                    return self.run_execute(m, e, fr)
        if qn == "builtins.next" and len(e.args) == 1 and isinstance(e.args[0], ast.Name) and isinstance(fr.env.get(e.args[0].id), Lst) and fr.env[e.args[0].id].isiter:
            # next(it) on an iterator over an input list: its first element; the iterator continues with the rest
            base = fr.env[e.args[0].id]
            if base.what in ("arrs", "cmds", "masks") and base.part == "all":
                fr.env[e.args[0].id] = replace(base, part="rest")
                return self.part_elem(replace(base, part="first")) if base.what != "cmds" else Cmd(base.L, "first")
            if base.what == "nums" and base.sliced in (None, (None, None), (0, None)):
                el = base.elem if isinstance(base.elem, Scal) else Scal()
                fr.env[e.args[0].id] = replace(base, sliced=(1, None))
                return Scal(D=el.D, Pg=el.Pg, dt=el.dt, sym="%s[0]" % ",".join(base.srcs))
            self.unsupported("a second next() on an iterator over an input list", e, fr)
        if qn == "builtins.next" and e.args and isinstance(e.args[0], ast.GeneratorExp) and len(e.args[0].generators) == 1 and isinstance(e.args[0].generators[0].target, ast.Name) \
                and isinstance(e.args[0].elt, ast.Name) and e.args[0].elt.id == e.args[0].generators[0].target.id:
            # `next((a for a in xs if test(a)), default)`: a probe for the first element with some property; the value is one of the
            # elements (or the default) - nothing is computed from a filtered list
            g_ = e.args[0].generators[0]
            it_ = self.ev(g_.iter, fr)
            if isinstance(it_, Lst) and it_.what in ("arrs", "cmds"):
                el_ = self.elem_of(it_, g_.iter, fr)
                f2_ = Frame(fr.module, fr.func, fr.cls, _copy_env(fr.env), fr.depth)
                f2_.returns = fr.returns
                self.assign(g_.target, el_, f2_, e)
                for c_ in g_.ifs:
                    self.ev(c_, f2_)
                dflt = self.ev(e.args[1], fr) if len(e.args) > 1 else None
                if isinstance(el_, Arr) and it_.part == "all":
                    # any element: stands for the first one and for the rest alike
                    el_ = self.join(self.part_elem(replace(it_, part="first")), self.part_elem(replace(it_, part="rest")))
                return el_ if dflt is None else self.join(el_, dflt)
        fv = None
        if not (isinstance(f, ast.Name) and f.id not in fr.env):
            fv = self.ev(f, fr)
        if isinstance(fv, Other):
            if fv.tag == "kwmethod":
                return self.call_kw(fv.info, e, fr)
            if fv.tag == "method":
                return self.call_arr_method(fv.info, e, fr)
            if fv.tag == "selfmethod":
                name, m = fv.info
                if name == "execute":
                    self.finding("selfexecute", e, "execute calls itself", fr)
                    return Other("opaque")
                A, K = self.eval_args(e, fr)
                if name == "get_argument_value":
                    return Other("rawarg", e.args[0].value if e.args and isinstance(e.args[0], ast.Constant) else None)
                if name in ("run",):
                    self.finding("selfresult", e, "execute calls self.run()", fr)
                    return Other("opaque")
                if name == "validate_array_shapes":
                    self.res.validates.append((e.lineno, A[0] if A else None, e, self.fkey(fr)))
                return self.inline(m, fr.cls if m.cls is not None else None, A, K, e, fr, bind_self=True)
            if fv.tag == "lstmethod":
                base, meth, basenode = fv.info
                A, K = self.eval_args(e, fr)
                if meth in ("append", "extend", "insert", "pop", "remove", "sort", "reverse", "clear") and base.argobj:
                    self.arg_mutation(base, e, "%s.%s()" % (_src(basenode), meth), fr)
                if meth == "pop" and len(A) == 1 and isinstance(A[0], Scal) and A[0].const == 0 and isinstance(basenode, ast.Name) and not K:
                    # xs.pop(0): the first element; xs is the rest from then on
                    if base.what in ("arrs", "cmds", "masks") and base.part == "all":
                        fr.env[basenode.id] = replace(base, part="rest")
                        return self.part_elem(replace(base, part="first")) if base.what != "cmds" else Cmd(base.L, "first")
                    if base.what == "nums" and base.sliced in (None, (None, None), (0, None)):
                        el = base.elem if isinstance(base.elem, Scal) else Scal()
                        fr.env[basenode.id] = replace(base, sliced=(1, None))
                        return Scal(D=el.D, Pg=el.Pg, dt=el.dt, sym="%s[0]" % ",".join(base.srcs))
                if meth in ("pop", "remove", "sort", "reverse", "clear") and isinstance(basenode, ast.Name) and base.what != "mixed":
                    self.unsupported("list method .%s() on %s" % (meth, base.what), e, fr)
                if meth in ("append", "extend", "insert") and isinstance(basenode, ast.Name):
                    def holds_input(v_):
                        if isinstance(v_, Arr):
                            return any(is_input_token(t_) for t_ in v_.alias)
                        if isinstance(v_, Lst) and v_.items:
                            return any(holds_input(x_) for x_ in v_.items)
                        return False
                    if meth == "append" and A and isinstance(A[0], Lst) and A[0].what == "mixed" and holds_input(A[0]) and self.cond_stack:
                        # input arrays put, with something else, into a new list under a condition: which inputs are left, in which
                        # roles, is not followed from here
                        self.unsupported("a loop that regroups or filters the input arrays into a new list (%s)" % _src(e)[:60], e, fr)
                    fr.env[basenode.id] = Lst("opaque") if base.what not in ("nums",) else base
                    return Other("none")
                if meth in ("index", "count"):
                    return Scal(dt=I_)
                if meth == "copy":
                    return replace(base, argobj=None)
                return Other("opaque")
            if fv.tag == "scalmethod":
                self.eval_args(e, fr)
                return Scal(D=fv.info[0].D, Pg=fv.info[0].Pg)
            if fv.tag == "fn" and fv.info == "dictget":
                self.eval_args(e, fr)
                return Scal(dt=I_)
            if fv.tag == "lambda":
                A, K = self.eval_args(e, fr)
                return self.apply_lambda(fv.info, A, fr)
            if fv.tag == "vectorized":
                # numpy.vectorize(f, otypes=[T])(x, ...): f cell by cell, the element type stated - the shape of the operands, each
                # cell a function of the operands' cells at that position (a masked operand comes in as its raw data)
                A, K = self.eval_args(e, fr)
                arrs_ = [x_ for x_ in A if isinstance(x_, Arr)]
                if not arrs_ or K:
                    return Other("opaque")
                a_ = arrs_[0]
                D_ = frozenset().union(*[x_.D for x_ in arrs_])
                Pc_ = frozenset().union(*[x_.Pc | (x_.D if x_.kind == "masked" else E) for x_ in arrs_])
                return replace(a_, kind="plain", alias=self.S(e), M=E, D=D_, Pc=Pc_, dt=fv.info, rng=(None, None), maskof=E, dataof=E, cmp=None, keeps=None, isbool=False)
            if fv.tag == "switch":
                A, K = self.eval_args(e, fr)
                outs = []
                keys = [k for k, _ in fv.info[1]]
                for case in self.switch_cases(fv, fr):
                    if isinstance(case, Other) and case.tag == "lambda":
                        outs.append(self.apply_lambda(case.info, A, fr))
                    elif isinstance(case, Other) and case.tag == "global" and isinstance(case.info, str):
                        outs.append(self.builtin(case.info, e, A, K, fr))
                    else:
                        self.cond_stack_pop_switch()
                        self.unsupported("call of a table entry %r" % (case,), e, fr)
                self.cond_stack_pop_switch()
                return Other("switch", (fv.info[0], tuple(zip(keys, outs))))
            if fv.tag == "localdef":
                self.eval_args(e, fr)
                return Other("opaque")
            if fv.tag == "type" and fv.info not in ("builtins.float", "builtins.int", "builtins.bool"):
                # a cleaned DataType parameter called as a constructor: data_type(x)
                A, K = self.eval_args(e, fr)
                a0 = A[0] if A else None
                if isinstance(a0, Scal):
                    return Scal(D=a0.D, Pg=a0.Pg, sym=a0.sym, const=a0.const)
                return Scal()
            if fv.tag == "opaque" and fv.info == "dtype.type":
                # x.dtype.type(v): the number v as that element type stores it
                A, K = self.eval_args(e, fr)
                if len(A) == 1 and isinstance(A[0], Scal):
                    return Scal(D=A[0].D, Pg=A[0].Pg, sym="cast(%s)" % (A[0].sym or scal_id(A[0])))
                return Scal()
            if fv.tag in ("opaque", "ncds", "ncvar", "file", "exc", "join", "dict", "str", "rawarg", "dtype", "set", "dictobj", "maybe-undefined"):
                A, K = self.eval_args(e, fr)
                for x in list(A) + list(K.values()):
                    if isinstance(x, Arr) and fv.tag in ("ncds", "ncvar", "file", "opaque") and fv.info in ("write", "writerow", "writerows", "createVariable"):
                        self.res.effects.append(("file-write", e.lineno, _src(e)[:80], self.fkey(fr)))
                if fv.tag == "ncds" or (fv.tag == "opaque" and fv.info in ("createVariable",)):
                    return Other("ncvar")
                return Other("opaque")
        if isinstance(fv, Other) and fv.tag == "global" and isinstance(fv.info, str) and qn is None:
            qn = fv.info  # a callable held in a variable, table or class attribute (operator.sub, numpy.ma.minimum, ...)
        A, K = self.eval_args(e, fr)
        # package functions and classes
        r = self.idx.resolve(fr.module, f, fr.func) if isinstance(f, (ast.Name, ast.Attribute)) and not (isinstance(f, ast.Name) and f.id in fr.env) else None
        if r is not None:
            if r[0] == "func":
                return self.inline(r[1], None, A, K, e, fr)
            if r[0] == "class":
                return Other("exc" if self.idx.is_subclass(r[1], "builtins.Exception") or self.idx.is_subclass(r[1], "Exception") else "obj", r[1].qual)
            if r[0] == "method":
                return self.inline(r[2], r[1], A, K, e, fr)
        if qn is None:
            self.unsupported("call of an unresolved callee", e, fr)
        return self.builtin(qn, e, A, K, fr)

    def eval_args(self, e, fr):
        A = []
        for a in e.args:
            v = self.ev(a, fr)
            if isinstance(a, ast.Starred) and isinstance(v, Lst) and v.items is not None:
                A.extend(v.items)
            else:
                A.append(v)
        K = {}
        for k in e.keywords:
            v = self.ev(k.value, fr)
            if k.arg is None:
                if isinstance(v, Kw):
                    for kk, vv in v.d.items():
                        K[kk] = vv
                continue
            K[k.arg] = v
        return A, K

    def apply_lambda(self, lam, A, fr):
        names = [a.arg for a in lam.args.args]
        f2 = Frame(fr.module, fr.func, fr.cls, _copy_env(fr.env), fr.depth)
        for n, v in zip(names, A):
            f2.env[n] = v
        return self.ev(lam.body, f2)

    def call_kw(self, info, e, fr):
        base, meth = info
        args = e.args
        if meth in ("get", "pop", "setdefault"):
            key = self.const_key(args[0], fr)
            dflt = self.ev(args[1], fr) if len(args) > 1 else Other("none")
            self.res.kwreads.append((key, meth, e, self.fkey(fr), args[1] if len(args) > 1 else None))
            if meth == "setdefault":
                # stores the default when the key is absent
                if key not in base.d:
                    base.d[key] = dflt
                    return dflt
                if key in base.optional:
                    base.d[key] = self.join(base.d[key], dflt)
                    base.optional.discard(key)
                return base.d[key]
            if key in base.d:
                v = base.d[key]
                if meth == "pop":
                    base.d.pop(key, None)
                if key not in base.optional:
                    return v
                if isinstance(dflt, Other) and dflt.tag == "none":
                    return Other("optional", v) if not isinstance(v, (Scal, Arr, Cmd, Lst)) else self.opt(v)
                return self.join(v, dflt)
            if not (isinstance(dflt, Other) and dflt.tag == "none") or len(args) > 1:
                if key not in self.decl.inputs and meth == "get" and fr.func is self.decl.execute:
                    self.finding("kwkey", e, "kwargs.get(%r) reads a key that is not a declared input of %s" % (key, self.decl.cls.name), fr)
            return dflt
        if meth in ("update", "setdefault", "pop", "clear", "popitem") and getattr(base, "static", None):
            self.res.findings.append(("shared-table-mutation", e.lineno, "`%s` changes the %s `%s` itself (no copy is taken): what one execution writes into it - the caller's thresholds, say - is what the next execution of any instance finds as its defaults"
                                      % (_src(e)[:60], "class attribute" if base.static[0] == "classattr" else "module-level table", base.static[-1]), self.fkey(fr), e))
        if meth == "update":
            other = self.ev(args[0], fr) if args else Kw()
            if isinstance(other, Kw):
                base.d.update(other.d)
                base.optional = (base.optional - set(k for k in other.d if k not in other.optional)) | (other.optional - set(base.d))
            for k in e.keywords:
                if k.arg is not None:
                    base.d[k.arg] = self.ev(k.value, fr)
                    base.optional.discard(k.arg)
            return Other("none")
        if meth == "copy":
            return base.copy()
        if meth == "items":
            return Lst("mixed", items=tuple(Lst("mixed", items=(Other("str", k), v)) for k, v in base.d.items()))
        if meth == "keys":
            return Lst("mixed", items=tuple(Other("str", k) for k in base.d))
        if meth == "values":
            return Lst("mixed", items=tuple(base.d.values()))
        return Other("opaque")

    def opt(self, v):
        return v

    def call_super(self, e, fr):
        meth = e.func.attr
        k = fr.cls
        sargs = e.func.value.args
        after = fr.func.cls
        if sargs:
            r = self.idx.resolve(fr.module, sargs[0], fr.func)
            if r and r[0] == "class":
                after = r[1]
        concrete = self.decl.cls if (fr.cls is not None and fr.cls in self.idx.mro(self.decl.cls)) else fr.cls
        m = self.idx.find_method(concrete, meth, after=after) if concrete is not None else None
        A, K = self.eval_args(e, fr)
        kwsnap = None
        for kwd in e.keywords:
            if kwd.arg is None:
                v = self.ev(kwd.value, fr)
                if isinstance(v, Kw):
                    kwsnap = v.copy()
        self.res.super_calls.append((e, kwsnap, dict((k_.arg, k_.value) for k_ in e.keywords if k_.arg), self.fkey(fr), m))
        if m is None:
            self.unsupported("super().%s has no package implementation" % meth, e, fr)
        if meth != "execute":
            return self.inline(m, concrete, A, K, e, fr, bind_self=True)
        # delegation: the base body runs on the same instance with the forwarded kwargs
        return self.run_execute(m, e, fr)

    def run_execute(self, m, e, fr):
        """the body of execute method `m` on the keyword arguments of call `e`"""
        if fr.depth >= self.MAX_DEPTH:
            self.unsupported("delegation deeper than %d" % self.MAX_DEPTH, e, fr)
        kw = Kw()
        for kwd in e.keywords:
            v = self.ev(kwd.value, fr)
            if kwd.arg is None:
                if isinstance(v, Kw):
                    kw.d.update(v.d)
                    kw.optional |= v.optional
                else:
                    self.unsupported("**%r" % (v,), e, fr)
            else:
                kw.d[kwd.arg] = v
                kw.optional.discard(kwd.arg)
        env = {}
        a = m.node.args
        if a.args:
            env[a.args[0].arg] = Other("self")
        for x in a.args[1:] + a.kwonlyargs:
            env[x.arg] = kw.d.pop(x.arg, Other("opaque"))
        if a.kwarg is not None:
            env[a.kwarg.arg] = kw
        f2 = Frame(m.module, m, m.cls, env, fr.depth + 1)
        self.exec_block(m.node.body, f2)
        if not f2.env.get("__dead__"):
            f2.returns.append((m.node, Other("none")))
        out = None
        for _, v in f2.returns:
            out = v if out is None else self.join(out, v)
        return out if out is not None else Other("none")

    def inline(self, fi, cls, A, K, e, fr, bind_self=False):
        if fr.depth >= self.MAX_DEPTH:
            return Other("opaque")
        a = fi.node.args
        params = [x.arg for x in a.args]
        env = {}
        if fi.cls is not None and fi.kind != "staticmethod" and params:
            env[params[0]] = Other("self") if bind_self else (A[0] if A and not bind_self else Other("self"))
            if not bind_self and A:
                A = A[1:]
            params = params[1:]
        for i, p in enumerate(params):
            if i < len(A):
                env[p] = A[i]
        for k, v in K.items():
            if k in params or k in [x.arg for x in a.kwonlyargs]:
                env[k] = v
        dflts = a.defaults
        for i, p in enumerate(params):
            if p not in env:
                j = i - (len(params) - len(dflts))
                if j >= 0:
                    env[p] = self.ev(dflts[j], Frame(fi.module, fi, fi.cls, {}, fr.depth + 1))
                else:
                    env[p] = Other("opaque")
        if a.kwarg is not None:
            env[a.kwarg.arg] = Kw({k: v for k, v in K.items() if k not in params})
        if a.vararg is not None:
            env[a.vararg.arg] = Lst("mixed", items=tuple(A[len(params):]))
        before = dict(env)
        f2 = Frame(fi.module, fi, cls if cls is not None else fi.cls, env, fr.depth + 1)
        self.inline_via.append((e, self.fkey(fr)) if not self.inline_via else self.inline_via[0])
        try:
            self.exec_block(fi.node.body, f2)
        finally:
            self.inline_via.pop()
        if not f2.env.get("__dead__"):
            f2.returns.append((fi.node, Other("none")))
        # in-place effects on arguments flow back to the caller's variables
        for i, p in enumerate(params):
            if i < len(e.args) and isinstance(e.args[i], ast.Name) and isinstance(before.get(p), Arr):
                newv = f2.env.get(p)
                if isinstance(newv, Arr) and newv is not before[p] and newv.alias == before[p].alias:
                    self.rebind(e.args[i], before[p], newv, fr)
        out = None
        for _, v in f2.returns:
            out = v if out is None else self.join(out, v)
        return out if out is not None else Other("none")

    # ---------------------------------------------------------------- methods on arrays
    def reduce_scalar(self, base, meth, node, fr):
        """whole-array reduction to a scalar (A7): mask-aware on masked arrays, raw on plain views"""
        pg = base.Pg | base.Pc
        if base.kind != "masked" and base.dataof:
            pg = pg | base.D  # statistic over raw .data: hidden values take part
        dt = F_ if meth in ("mean", "std", "var", "median") else (I_ if meth == "count" else base.dt)
        if base.shape in ("stacked", "rankdep"):
            self.finding("equivariance", node, "reduction over layers and cells together: %s" % _src(node), fr)
        scope = "all" if base.shape == "same" and not base.sel and base.keeps is None else "subset"
        if base.keeps is not None:
            self.res.half_stats.append((node, meth, base.keeps, self.fkey(fr)))
        return Scal(D=base.D, Pg=pg, dt=dt, masked_const_possible=base.kind == "masked", sym="stat:%s(%s)" % (meth, scope) if base.D else None)

    def reshape_shape(self, base, e, fr):
        """abstract shape after `base.reshape(args)` for the position-preserving forms (A28), else None"""
        args = e.args[0].elts if len(e.args) == 1 and isinstance(e.args[0], (ast.Tuple, ast.List)) else e.args
        txt = [_src(a).replace(" ", "") for a in args]
        whole = _src(e.args[0]).replace(" ", "") if len(e.args) == 1 else None

        def is_shape_of_input(a):
            try:
                v = self.ev(a, fr)
            except Unsupported:
                return False
            return isinstance(v, Lst) and v.what == "shape" and v.srcs and v.srcs[0] == "same"

        def is_len_of_inputs(a):
            try:
                v = self.ev(a, fr)
            except Unsupported:
                return False
            return isinstance(v, Scal) and bool(v.sym) and v.sym.startswith("len(") and v.sym.endswith(":all)")

        def is_size_of_input(a):
            if isinstance(a, ast.Attribute) and a.attr == "size":
                try:
                    v = self.ev(a.value, fr)
                except Unsupported:
                    return False
                return isinstance(v, Arr) and v.shape == "same"
            return False

        if base.shape == "stacked" and len(args) == 2 and is_len_of_inputs(args[0]) and (is_size_of_input(args[1]) or txt[1] == "-1"):
            return "stackedflat"  # (layers, all cells of a layer in storage order)
        if base.shape == "stackedflat" and len(e.args) == 1 and isinstance(e.args[0], ast.BinOp):
            return None
        if base.shape == "raveled" and len(e.args) == 1 and is_shape_of_input(e.args[0]):
            return "same"
        if base.shape == "same" and len(args) == 1 and txt[0] == "-1":
            return "raveled"
        if base.shape == "layervec" and whole is not None:
            m = re.fullmatch(r"\(-1,\)\+\(1,\)\*\((\w+)\.ndim-1\)", whole)
            if m:
                v = fr.env.get(m.group(1))
                if isinstance(v, Arr) and v.shape == "stacked":
                    return "layercol"  # (layers, 1, ..., 1) with as many ones as the data has axes: broadcasts along the layer axis for every rank
            if whole in ("(-1,1)", "-1,1"):
                return "layercol1"
        return None

    def call_arr_method(self, info, e, fr):
        base, meth, basenode = info
        A, K = self.eval_args(e, fr)
        if meth in REDUCERS:
            ax = K.get("axis", A[0] if A else None)
            if ax is None or (isinstance(ax, Other) and ax.tag == "none"):
                return self.reduce_scalar(base, meth, e, fr)
            return self.axis_reduce(base, ax, e, fr, meth)
        if meth == "copy":
            return replace(base, alias=self.S(e), maskof=E, dataof=E)
        if meth == "astype":
            t = A[0] if A else K.get("dtype")
            dt = base.dt
            prov_ = E
            if isinstance(t, Other) and t.tag == "type":
                dt = {"builtins.float": F_, "builtins.int": I_, "builtins.bool": B_}.get(t.info, IF_)
            elif isinstance(t, Other) and t.tag == "dtype" and isinstance(t.info, Arr):
                dt, prov_ = t.info.dt, t.info.dtprov  # an element type computed from arrays (result_type, x.dtype)
            cp = K.get("copy")
            if isinstance(cp, Other) and cp.tag == "bool" and cp.info is False:
                # astype(copy=False) returns the array itself whenever the element type already matches
                return replace(base, alias=base.alias | self.S(e), dt=dt, dtprov=E)
            return replace(base, alias=self.S(e), dt=dt, dtprov=prov_, maskof=E, dataof=E)
        if meth == "compressed":
            # A31: with no mask array (nomask) compressed() is ravel() of the data - a VIEW for contiguous storage; only a real
            # mask makes it a fresh copy.  Whether an input has a mask array is not known, so the result may share its data.
            return replace(base, kind="plain", M=E, shape="flat", alias=self.S(e) | base.alias | base.dataof, maskof=E, dataof=E)
        if meth == "filled":
            fv_node = e.args[0] if e.args else next((k.value for k in e.keywords if k.arg == "fill_value"), None)
            fv_val = self.ev(fv_node, fr) if fv_node is not None else None
            vm = base.M if (base.kind == "masked" and base.isbool and isinstance(fv_val, Other) and fv_val.tag == "bool" and fv_val.info is False) else E
            return replace(base, kind="plain", M=E, Pc=base.Pc, alias=self.S(e) | base.alias | base.dataof, maskof=E, dataof=E, D=base.D, validM=base.validM | vm,  # A31: the data itself when there is no mask array
                           filledwith=(base.M if base.kind == "masked" else E, _src(fv_node) if fv_node is not None else None))
        if meth == "clip":
            lo = A[0] if A else K.get("min")
            hi = A[1] if len(A) > 1 else K.get("max")
            out = K.get("out")
            if isinstance(out, Arr):
                self.write_site(out, e, "out= of clip", fr)
            return replace(base, alias=out.alias if isinstance(out, Arr) else self.S(e), rng=(scal_id(lo), scal_id(hi)))
        if meth == "sort":
            self.write_site(base, e, "in-place sort of %s" % _src(basenode), fr)
            ax = K.get("axis", A[0] if A else None)
            ax0 = isinstance(ax, Scal) and ax.const == 0
            if base.shape == "stackedlast" and (ax is None or isinstance(ax, Scal) and ax.const == -1):
                # the layer axis is the last one (and the default axis of sort): every cell's layers put in order, no cell moves
                self.rebind(basenode, base, replace(base, sorted0=True), fr)
                return Other("none")
            if base.shape == "rankdep":
                self.finding("shape", e, "layer-axis sort on a rank-dependent stack (numpy.vstack, A10): for rank >= 2 axis 0 mixes cells of different positions", fr)
            elif base.shape == "flat" and not any(is_input_token(t_) for t_ in base.alias | base.dataof):
                pass  # a private 1-D collection of values (compressed / selected cells) put in order: no grid cell moves
            elif not (base.shape in ("stacked", "stackedflat") and ax0):
                self.finding("equivariance", e, "sort along a data axis rearranges cells: %s" % _src(e), fr)
            new = replace(base, sorted0=ax0 and base.shape in ("stacked", "rankdep", "stackedflat"), ascending=base.shape in ("flat", "layervec") and ax is None)
            self.rebind(basenode, base, new, fr)
            return Other("none")
        if meth in ("soften_mask", "harden_mask", "unshare_mask", "shrink_mask"):
            self.write_site(base, e, "%s()" % meth, fr)
            if meth in ("soften_mask", "harden_mask"):
                # A26: while the mask is hard, an item store cannot uncover a missing cell
                new = replace(base, hardmask=(meth == "harden_mask"))
                self.rebind(basenode, base, new, fr)
                return new
            return base
        if meth in ("fill", "itemset", "put", "resize", "partition", "set_fill_value", "setflags", "byteswap"):
            self.write_site(base, e, "%s() mutates the array" % meth, fr)
            ax_ = K.get("axis", A[1] if len(A) > 1 else None)
            if meth == "partition" and base.shape in ("stacked", "stackedflat") and isinstance(ax_, Scal) and ax_.const == 0:
                # a partial ordering along the LAYER axis: within every cell the layers are moved, no cell moves.  Which layers sit at
                # which end afterwards depends on the pivot: rules that read "the k truest" off a sorted stack cannot use it
                self.res.soft_undecided.append("`%s` orders the layer stack only partially: which layers a later slice selects is outside what is read here" % _src(e)[:50])
                return Other("none")
            if meth in ("resize", "partition", "put", "itemset"):
                self.finding("equivariance", e, "%s() is position dependent" % meth, fr)
            return Other("none")
        if meth == "transpose":
            if base.shape == "same":
                self.finding("equivariance", e, "transpose rearranges cells: %s" % _src(e), fr)
            return replace(base, shape="unknown", alias=base.alias)
        if meth in ("ravel", "flatten", "reshape"):
            ordk = next((k_.value for k_ in e.keywords if k_.arg == "order"), None)
            if ordk is None and meth in ("ravel", "flatten") and len(e.args) == 1:
                ordk = e.args[0]
            if ordk is not None and not (isinstance(ordk, ast.Constant) and ordk.value == "C"):
                if isinstance(ordk, ast.Constant) and ordk.value in ("A", "K"):
                    # A32: the order then follows the memory layout of THIS array, and the 1-D intermediate has no layout to follow
                    self.finding("equivariance", e, "%s(order=%r) reads / writes the cells in the order they lie in memory: for a Fortran-ordered grid (a transposed grid, asfortranarray, loadmat output) the flat values and the grid they are folded back into are matched differently, so values land in other cells" % (meth, ordk.value), fr)
                    return replace(base, shape="unknown", alias=base.alias | self.S(e))
                self.unsupported("%s with order=%s (only the default row-major order is followed)" % (meth, _src(ordk)), e, fr)
        if meth == "reshape" and e.args:
            got = self.reshape_shape(base, e, fr)
            if got is not None:
                return replace(base, shape=got, alias=base.alias | self.S(e))
        if meth in ("ravel", "flatten") and base.shape == "same" and not e.args:
            # every cell, in storage order: undone exactly by reshape(<the original shape>)  (A28)
            return replace(base, shape="raveled", alias=(base.alias | self.S(e)) if meth == "ravel" else self.S(e))
        if meth in ("argmax", "argmin", "argsort") and base.shape == "stacked":
            ax_ = self.ev(e.args[0], fr) if e.args else next((self.ev(k_.value, fr) for k_ in e.keywords if k_.arg == "axis"), None)
            if isinstance(ax_, Scal) and ax_.const == 0:
                # per cell, WHICH layer holds the extreme: a layer-axis quantity, but selecting layers by it is not modelled
                self.unsupported("%s(axis=0) over the stacked inputs (a per-cell choice of layer)" % meth, e, fr)
        if meth in POSITIONAL_METHODS:
            if base.shape in ("same", "stacked"):
                self.finding("equivariance", e, "%s() is position dependent on data axes: %s" % (meth, _src(e)), fr)
            return replace(base, shape="unknown", alias=base.alias | self.S(e))
        if meth in ("view", "squeeze", "__array__"):
            return replace(base, alias=base.alias)
        if meth in ("round", "conj", "conjugate", "__abs__"):
            return replace(base, alias=self.S(e), maskof=E, dataof=E, rng=(None, None))
        if meth in ("tobytes", "dump", "dumps", "tofile"):
            return Other("opaque")
        self.unsupported("array method .%s()" % meth, e, fr)

    def axis_reduce(self, base, ax, e, fr, what):
        if base.shape == "stackedlast" and isinstance(ax, Scal) and ax.const == -1:
            base, ax = replace(base, shape="stacked"), Scal(dt=I_, const=0)  # the layer axis, wherever it sits
        ax0 = isinstance(ax, Scal) and ax.const == 0
        if not (base.isbool and base.kind == "plain" and base.maskof):
            self.res.layer_reduces.append((e, base.sel, what, self.fkey(fr)))  # (a reduction of the masks combines no data layers)
            self.res.layer_reduce_kind[id(e)] = base.kind
        if base.shape == "stacked" and ax0 and base.isbool and base.kind == "plain" and base.maskof and what in ("any", "all", "max", "min", "sum"):
            # the masks of the layers combined along the layer axis: any/max/sum>0 is the union (covers every layer's missing
            # cells), all/min the intersection (covers none for certain when the layers differ)
            union = what in ("any", "max", "sum")
            return replace(base, shape="same", alias=self.S(e), maskof=E, dataof=E, layermask=False, M=base.M if (union or not base.layermask) else E, dt=B_ if what != "sum" else I_, isbool=what != "sum")
        if base.shape == "stacked" and ax0:
            # A12: with one mask per layer a layer-axis reduction skips masked layers, so a cell missing in only some
            # inputs comes out present; only a mask shared by all layers (the broadcast union) keeps coverage
            return replace(base, shape="same", alias=self.S(e), dt=F_ if what in ("mean", "std", "var", "median") else base.dt, rng=(None, None), sorted0=False, maskof=E, dataof=E,
                           M=E if base.layermask else base.M, layermask=False)
        if base.shape == "rankdep" and ax0:
            self.finding("shape", e, "layer-axis reduction of a rank-dependent stack (numpy.vstack, A10)", fr)
            return replace(base, shape="unknown", alias=self.S(e), dt=F_, rng=(None, None), sorted0=False)
        self.finding("equivariance", e, "reduction along a data axis: %s" % _src(e), fr)
        return replace(base, shape="unknown", alias=self.S(e), rng=(None, None))

    # ---------------------------------------------------------------- table of external callables
    def builtin(self, qn, e, A, K, fr):
        S = lambda: self.S(e)  # noqa: E731
        a0 = A[0] if A else None
        short = qn.replace("builtins.", "")
        if qn in ("numpy.result_type", "numpy.promote_types", "numpy.min_scalar_type", "numpy.common_type", "numpy.find_common_type"):
            dts = []
            prov = E
            for x in A:
                if isinstance(x, Arr):
                    prov |= x.dtprov
                elif isinstance(x, Lst) and isinstance(x.elem, Arr):
                    prov |= x.elem.dtprov
                if isinstance(x, (Arr, Scal)):
                    dts.append(x.dt)
                elif isinstance(x, Lst) and isinstance(x.elem, Arr):
                    dts.append(x.elem.dt)
                elif isinstance(x, Other) and x.tag == "dtype" and isinstance(x.info, Arr):
                    dts.append(x.info.dt)
                    prov |= x.info.dtprov
                elif isinstance(x, Lst) and x.what == "dtypes" and isinstance(x.elem, Other) and isinstance(x.elem.info, Arr):
                    dts.append(x.elem.info.dt)
                    prov |= x.elem.info.dtprov
                else:
                    dts = None
                    break
            if dts:
                d0 = dts[0]
                for d1 in dts[1:]:
                    d0 = promote(d0, d1)
                return Other("dtype", Arr(kind="plain", alias=E, dt=d0, dtprov=prov))
            return Other("type", "numpy.dtype")
        if qn == "numpy.dtype" and len(A) == 1 and not K:
            if isinstance(a0, Other) and a0.tag == "type" and a0.info in ("builtins.float", "builtins.int", "builtins.bool"):
                return Other("dtype", Arr(kind="plain", alias=E, dt={"builtins.float": F_, "builtins.int": I_, "builtins.bool": B_}[a0.info]))
            if isinstance(a0, Other) and a0.tag == "dtype":
                return a0
        if qn == "numpy.searchsorted" and len(A) >= 2 and not (isinstance(A[0], Arr) and A[0].ascending or isinstance(A[0], Lst) and A[0].sorted_) and "sorter" not in K:
            self.finding("unsorted-search", e, "`%s` searches `%s` by bisection, but nothing puts that table in ascending order first: for any other order the search lands on the wrong entry (a listed value is reported as absent, or matched with another entry's slot)" % (_src(e)[:70], _src(e.args[0])), fr)
        if qn == "numpy.searchsorted" and len(A) >= 2:
            # position of a value in a sorted 1-D array: a whole-array quantity of that array (and of the value)
            D_ = frozenset().union(*[x.D for x in A[:2] if isinstance(x, (Arr, Scal))])
            Pg_ = frozenset().union(*[(x.Pg | (x.Pc if isinstance(x, Arr) else E)) for x in A[:2] if isinstance(x, (Arr, Scal))])
            if isinstance(A[1], Arr):
                return replace(A[1], alias=S(), dt=I_, D=D_, rng=(None, None), maskof=E, dataof=E, cmp=None)
            return Scal(D=D_, Pg=Pg_, dt=I_, sym="pos(%s@%d)" % (scal_id(A[1]), e.lineno))
        if qn in ("numpy.shape", "numpy.ma.shape") and len(A) == 1 and not K:
            if isinstance(a0, Arr):
                return Lst("shape", srcs=(a0.shape,))
            return Lst("shape", srcs=("unknown",))
        if qn in ("numpy.ndim", "numpy.ma.ndim", "numpy.size", "numpy.ma.size") and len(A) == 1 and not K:
            return Scal(dt=I_)
        if qn in ("numpy.can_cast", "numpy.issubdtype", "numpy.isscalar", "numpy.ma.isMaskedArray", "numpy.ma.isMA", "numpy.ma.isarray", "numpy.iscomplexobj", "numpy.isrealobj", "numpy.shares_memory", "numpy.may_share_memory"):
            return Other("bool")
        if qn in ("numpy.isclose", "numpy.ma.isclose", "numpy.equal", "numpy.not_equal", "numpy.greater", "numpy.greater_equal", "numpy.less", "numpy.less_equal",
                  "numpy.ma.equal", "numpy.ma.not_equal", "numpy.ma.greater", "numpy.ma.greater_equal", "numpy.ma.less", "numpy.ma.less_equal") and len(A) >= 2 and any(isinstance(x, Arr) for x in A[:2]):
            nm_ = qn.split(".")[-1]
            opn = {"isclose": "Close", "equal": "Eq", "not_equal": "NotEq", "greater": "Gt", "greater_equal": "GtE", "less": "Lt", "less_equal": "LtE"}[nm_]
            return self.compare_arr(A[:2], opn, e, fr)
        if qn.startswith("operator.") or qn.startswith("_operator."):
            nm = qn.split(".")[-1].strip("_")
            ops = {"add": ast.Add(), "iadd": ast.Add(), "sub": ast.Sub(), "isub": ast.Sub(), "mul": ast.Mult(), "imul": ast.Mult(), "truediv": ast.Div(), "itruediv": ast.Div(),
                   "floordiv": ast.FloorDiv(), "mod": ast.Mod(), "pow": ast.Pow(), "and": ast.BitAnd(), "or": ast.BitOr(), "xor": ast.BitXor(), "iand": ast.BitAnd(), "ior": ast.BitOr(), "ixor": ast.BitXor(),
                   "ifloordiv": ast.FloorDiv(), "imod": ast.Mod(), "ipow": ast.Pow()}
            if nm in ops and len(A) == 2:
                if isinstance(ops[nm], (ast.Div, ast.FloorDiv, ast.Mod)) and any(isinstance(x, Arr) for x in A):
                    self.res.divisions.append((e.lineno, A[0], A[1], e, self.fkey(fr)))
                if isinstance(A[0], Arr) and isinstance(A[1], Arr):
                    self.res.binops.append((e, type(ops[nm]).__name__, A[0].D, A[1].D, self.fkey(fr)))
                if nm.startswith("i") and nm not in ("invert", "inv", "is", "index") and isinstance(A[0], Arr):
                    self.write_site(A[0], e, "in-place operator.%s" % nm, fr)
                    return self.binop_arr(A[0], A[1], ops[nm], e, fr, inplace=True)
                return self.binop(A[0], A[1], ops[nm], e, fr)
            if nm in ("neg", "pos", "abs") and A and isinstance(A[0], Arr):
                return replace(A[0], alias=S(), rng=(None, None), maskof=E, dataof=E, cmp=None)
            if nm in ("lt", "le", "gt", "ge", "eq", "ne") and len(A) == 2 and any(isinstance(x, Arr) for x in A):
                return self.compare_arr(A, {"lt": "Lt", "le": "LtE", "gt": "Gt", "ge": "GtE", "eq": "Eq", "ne": "NotEq"}[nm], e, fr)
            return Other("opaque", qn)
        # ---- numpy / numpy.ma constructors and copies
        if qn == "numpy.copy":
            if isinstance(a0, Arr):
                sub = K.get("subok")
                keep = isinstance(sub, Other) and sub.info is True
                if a0.kind == "masked" and not a0.isbool and not keep:
                    # A1: plain ndarray, mask dropped, hidden data exposed
                    return replace(a0, kind="plain", M=E, Pc=a0.Pc | a0.D, alias=S(), maskof=E, dataof=E, rng=(None, None))
                return replace(a0, alias=S(), maskof=E, dataof=E)
            return a0
        if qn in ("numpy.ma.copy", "copy.copy", "copy.deepcopy"):
            if isinstance(a0, Arr):
                return replace(a0, alias=S(), maskof=E, dataof=E)
            if isinstance(a0, Kw):
                return a0.copy()
            return a0 if a0 is not None else Other("opaque")
        if qn in ("numpy.ma.array", "numpy.ma.asarray", "numpy.ma.asanyarray", "numpy.ma.masked_array") and isinstance(a0, Lst) and a0.what == "nums" and a0.sliced is None and "mask" not in K:
            # one number per input (the weights) as a masked vector along the layer axis: a division of it by zero gives missing weights
            el = a0.elem if isinstance(a0.elem, Scal) else Scal()
            return Arr(kind="masked", alias=S(), shape="layervec", dt=F_ if "dtype" in K else IF_, D=el.D, Pg=el.Pg, ascending=a0.sorted_)
        if qn in ("numpy.ma.array", "numpy.ma.MaskedArray", "numpy.ma.masked_array", "numpy.ma.asarray", "numpy.ma.asanyarray"):
            return self.make_masked_array(qn, e, A, K, fr)
        if qn in ("numpy.array", "numpy.asarray", "numpy.asanyarray", "numpy.ascontiguousarray"):
            cp_ = K.get("copy")
            fresh_ = qn == "numpy.array" and not (isinstance(cp_, Other) and cp_.tag in ("bool", "none") and cp_.info is not True) and (cp_ is None or isinstance(cp_, Other))
            if isinstance(a0, Arr):
                if fresh_:
                    # numpy.array(x) copies by default (copy=True): new storage, whatever x was (a masked operand loses its mask, A1)
                    if a0.kind == "masked":
                        return replace(a0, kind="plain", M=E, Pc=a0.Pc | a0.D, alias=S(), maskof=E, dataof=E, rng=(None, None))
                    return replace(a0, alias=S(), maskof=E, dataof=E)
                # with dtype= the outcome is the same storage only when the element type already is that one (float32 / integer data
                # is converted into NEW storage): it may alias the operand (a write may reach it) but is not known to BE its buffer
                conv_ = K.get("dtype") is not None or len(A) > 1
                if a0.kind == "masked" and qn != "numpy.asanyarray":
                    return replace(a0, kind="plain", M=E, Pc=a0.Pc | a0.D, alias=a0.alias | S(), maskof=E, dataof=E if conv_ else a0.alias, rng=(None, None))
                if conv_:
                    return replace(a0, alias=a0.alias | S(), dataof=E, maskof=E)
                return replace(a0, alias=a0.alias | S())
            if isinstance(a0, Lst) and a0.what == "arrs":
                el = self.part_elem(a0)
                return replace(el, kind="plain" if qn != "numpy.asanyarray" else el.kind, M=E, Pc=el.Pc | (el.D if el.kind == "masked" else E), shape="stacked", alias=S())
            if isinstance(a0, Lst) and a0.what == "masks":
                # the masks of the inputs, one layer each: a boolean stack whose layers differ (each is its own input's mask)
                el = self.part_elem(a0)
                if isinstance(el, Arr) and el.isbool and el.kind == "plain" and el.maskof:
                    return replace(el, shape="stacked", alias=S(), layermask=len(el.M) > 1, dataof=E)
            if isinstance(a0, Lst) and a0.what == "nums" and a0.sliced is None:
                # one number per input (the weights): a vector along the layer axis
                el = a0.elem if isinstance(a0.elem, Scal) else Scal()
                return Arr(kind="plain", alias=S(), shape="layervec", dt=IF_, D=el.D, Pg=el.Pg, ascending=a0.sorted_)
            return Arr(kind="plain", alias=S(), shape="unknown", dt=IF_)
        if qn in ("numpy.ma.empty", "numpy.ma.zeros", "numpy.ma.ones", "numpy.ma.masked_all", "numpy.full", "numpy.empty", "numpy.zeros", "numpy.ones",
                  "numpy.empty_like", "numpy.zeros_like", "numpy.ones_like", "numpy.full_like", "numpy.ma.empty_like", "numpy.ma.zeros_like", "numpy.ma.ones_like"):
            shp = "unknown"
            if isinstance(a0, Lst) and a0.what == "shape":
                shp = a0.srcs[0] if a0.srcs else "unknown"
            elif isinstance(a0, Arr):
                shp = a0.shape
            dtv = K.get("dtype")
            dt = F_
            dtprov = E
            if isinstance(dtv, Other) and dtv.tag == "type":
                dt = {"builtins.float": F_, "builtins.int": I_, "builtins.bool": B_}.get(dtv.info, IF_)
            elif isinstance(dtv, Other) and dtv.tag == "dtype" and isinstance(dtv.info, Arr):
                # dtype=other.dtype: the buffer's element type is pinned to that array's
                dt, dtprov = dtv.info.dt, dtv.info.dtprov
            elif "full" in qn and dtv is None and len(A) > 1 and isinstance(A[1], Scal):
                dt = A[1].dt
            elif "_like" in qn and isinstance(a0, Arr) and dtv is None:
                dt, dtprov = a0.dt, a0.dtprov
            D = E
            Pg = E
            if "full" in qn and len(A) > 1 and isinstance(A[1], Scal):
                D, Pg = A[1].D, A[1].Pg
            masked = ".ma." in qn
            rng0 = A[1].rng if ("full" in qn and len(A) > 1 and isinstance(A[1], Scal) and "_like" not in qn) else (None, None)
            return Arr(kind="masked" if masked else "plain", alias=S(), shape=shp, dt=dt, dtprov=dtprov, D=D, Pg=Pg, constmask=masked or dt == B_, rng=rng0, isbool=(dt == B_ and not masked))
        if qn in ("numpy.ma.masked_values", "numpy.ma.masked_equal", "numpy.ma.masked_where", "numpy.ma.masked_object", "numpy.ma.masked_invalid",
                  "numpy.ma.masked_less", "numpy.ma.masked_greater", "numpy.ma.masked_less_equal", "numpy.ma.masked_greater_equal", "numpy.ma.masked_not_equal",
                  "numpy.ma.masked_inside", "numpy.ma.masked_outside"):
            name = qn.split(".")[-1]
            if name == "masked_where":
                cond, x = (A + [None, None])[:2]
                val = None
            else:
                x = a0
                cond = None
                val = A[1] if len(A) > 1 else K.get("value")
            if not isinstance(x, Arr):
                return Arr(kind="masked", alias=S(), shape="unknown", dt=IF_)
            op = {"masked_values": "Close", "masked_equal": "Eq", "masked_object": "Eq", "masked_less": "Lt", "masked_greater": "Gt", "masked_less_equal": "LtE",
                  "masked_greater_equal": "GtE", "masked_not_equal": "NotEq", "masked_invalid": "Invalid", "masked_inside": "Inside", "masked_outside": "Outside"}.get(name)
            if cond is not None and isinstance(cond, Arr):
                m = replace(cond, isbool=True)
            else:
                m = Arr(kind="plain", isbool=True, alias=S(), M=E, shape=x.shape, dt=B_, cmp=(x.alias | x.dataof, op, scal_id(val), x.sel))
            cp = K.get("copy")
            fresh = not (isinstance(cp, Other) and cp.info is False)
            if not fresh and x.kind == "masked":
                # copy=False builds a view sharing the mask buffer and then assigns `.mask`: the (soft) mask setter writes the
                # new mask into the shared buffer, so the argument's own missing cells change
                self.write_site(x, e, "mask store through %s(copy=False)" % name, fr)
            kp = None
            if op in ("Lt", "LtE", "Gt", "GtE") and scal_id(val) is not None:
                # masking the cells on one side leaves exactly the cells on the other side present
                kp = ({"Lt": "GtE", "LtE": "Gt", "Gt": "LtE", "GtE": "Lt"}[op], scal_id(val), frozenset(x.alias))
            out = replace(x, kind="masked", alias=S() if fresh else x.alias | S(), M=(x.M if x.kind == "masked" else E) | (m.M if isinstance(m, Arr) else E), maskof=E, dataof=E,
                          rng=(None, None), constmask=False, Pc=x.Pc | (m.Pc if isinstance(m, Arr) else E), keeps=kp)
            self.res.maskstores.append((e.lineno, out, m, e, self.fkey(fr)))
            return out
        if qn in ("numpy.ma.compress_rows", "numpy.ma.compress_cols", "numpy.ma.compress_rowcols", "numpy.ma.mask_rows", "numpy.ma.mask_cols", "numpy.ma.mask_rowcols"):
            # whole rows / columns are taken out (or masked) because ONE of their cells is missing: a 2-D, position-dependent operation
            if isinstance(a0, Arr):
                self.finding("equivariance", e, "%s removes or masks whole rows / columns that hold a missing cell: defined for 2-D tables only, and cells that are present go with the missing one" % qn, fr)
                return replace(a0, kind="plain" if "compress" in qn else a0.kind, shape="unknown", alias=S(), maskof=E, dataof=E)
            return Other("opaque")
        if qn in ("numpy.putmask", "numpy.place", "numpy.put", "numpy.copyto") and isinstance(a0, Arr):
            self.write_site(a0, e, "%s writes into its first argument" % qn, fr)
            vals_ = A[2] if len(A) > 2 else (A[1] if qn == "numpy.copyto" and len(A) > 1 else None)
            if qn in ("numpy.putmask", "numpy.place", "numpy.put") and isinstance(vals_, Arr) and vals_.shape != a0.shape:
                # putmask(a, mask, values) takes values[n % len(values)] for FLAT POSITION n - not the k-th value for the k-th selected
                # cell; place() does take them in order, but only over the selected cells of the flattened array
                self.finding("equivariance", e, "%s scatters a shorter vector of values by flat position (values[n %% len(values)] goes to position n): once a cell is left out, every later cell receives another cell's value" % qn, fr)
            return Other("none")
        if qn == "numpy.interp" and isinstance(a0, Arr):
            # piecewise-linear interpolation, value by value: the result has the shape of x
            xs_ = [z_ for z_ in A[1:3] if isinstance(z_, (Arr, Scal))]
            D_ = a0.D.union(*[z_.D for z_ in xs_]) if xs_ else a0.D
            return replace(a0, kind="plain", alias=S(), M=E, Pc=a0.Pc | (a0.D if a0.kind == "masked" else E), D=D_, dt=F_, rng=(None, None), maskof=E, dataof=E, cmp=None, keeps=None)
        if qn == "numpy.vectorize":
            if "otypes" not in K:
                self.finding("equivariance", e, "numpy.vectorize without `otypes` takes the element type of the whole result from the FIRST cell's value: whether fractions survive depends on which cell comes first", fr)
                return Other("opaque")
            ot_ = next((k_.value for k_ in e.keywords if k_.arg == "otypes"), None)
            if isinstance(ot_, (ast.List, ast.Tuple)) and len(ot_.elts) == 1 and not K.get("signature") and not K.get("excluded"):
                tq_ = self.q(ot_.elts[0], fr) if isinstance(ot_.elts[0], (ast.Name, ast.Attribute)) else (ot_.elts[0].value if isinstance(ot_.elts[0], ast.Constant) else None)
                dt_ = {"builtins.float": F_, "float": F_, "numpy.float64": F_, "numpy.float32": F_, "numpy.double": F_, "d": F_, "f": F_, "builtins.int": I_, "int": I_, "numpy.int64": I_, "numpy.int32": I_, "builtins.bool": B_, "bool": B_}.get(tq_)
                if dt_ is not None:
                    return Other("vectorized", dt_)
            return Other("opaque")
        if qn in ("numpy.ma.getmaskarray", "numpy.ma.getmask"):
            if isinstance(a0, Arr):
                return Arr(kind="plain", isbool=True, alias=S() if qn.endswith("getmaskarray") else a0.alias, M=a0.M, shape=a0.shape, dt=B_, maskof=a0.alias, constmask=a0.constmask, layermask=a0.layermask)
            return Other("opaque")
        if qn in ("numpy.ma.getdata", "numpy.ma.filled"):
            fv_ = K.get("fill_value", A[1] if len(A) > 1 else None)
            if qn.endswith("filled") and isinstance(a0, Arr) and a0.kind == "masked" and a0.isbool and isinstance(fv_, Other) and fv_.tag == "bool" and fv_.info is False:
                # a masked comparison filled with False: true only at cells that are present (and where the comparison holds)
                return replace(a0, kind="plain", M=E, dataof=E, maskof=E, rng=(None, None), alias=S(), validM=a0.validM | a0.M)
            if isinstance(a0, Arr):
                return replace(a0, kind="plain", M=E, Pc=a0.Pc | a0.D, dataof=a0.alias, maskof=E, rng=(None, None))
            return Other("opaque")
        if qn in ("numpy.ma.is_masked", "numpy.ma.isMaskedArray", "numpy.ma.isMA", "numpy.issubdtype", "numpy.isscalar", "numpy.array_equal", "numpy.allclose", "numpy.may_share_memory", "numpy.shares_memory"):
            return Other("bool")
        # ---- element-wise binary / unary functions
        if qn in ("numpy.ma.minimum", "numpy.ma.maximum", "numpy.minimum", "numpy.maximum", "numpy.fmin", "numpy.fmax", "numpy.add", "numpy.subtract", "numpy.multiply",
                  "numpy.ma.add", "numpy.ma.subtract", "numpy.ma.multiply", "numpy.power", "numpy.ma.power", "numpy.hypot"):
            out = K.get("out")
            x, y = (A + [None, None])[:2]
            if isinstance(out, Arr):
                self.write_site(out, e, "out= of %s" % qn, fr)
            if isinstance(x, Arr) or isinstance(y, Arr):
                r = self.binop(x, y, ast.Add(), e, fr) if isinstance(x, Arr) else self.binop_arr(y, x, ast.Add(), e, fr)
                if isinstance(out, Arr):
                    r = replace(r, alias=out.alias, ownmask=out.ownmask)
                    outnode = next((k_.value for k_ in e.keywords if k_.arg == "out"), None)
                    if ".ma." not in qn and isinstance(r, Arr):
                        # a plain ufunc with out=: the CONTAINER of `out` decides what comes back.  A MaskedArray merges the masks of
                        # the operands; a plain ndarray (which every data command accepts as input) takes the raw data of a masked
                        # operand, hidden values included, and no mask at all
                        if not out.ownmask and any(is_input_token(t_) for t_ in (out.D | out.alias)) and any(isinstance(z_, Arr) and z_.kind == "masked" and z_ is not out and not (z_.alias & out.alias) for z_ in (x, y)):
                            self.finding("out-container", e, "`%s` writes into `%s`, which is (a copy of) an input as it came: when that input is a plain array the masks of the other operands are dropped and the data hidden under their missing cells enters the result; only a target built as a masked array merges the masks" % (_src(e)[:60], _src(outnode) if outnode is not None else "out"), fr)
                    if isinstance(outnode, ast.Name) and isinstance(fr.env.get(outnode.id), Arr):
                        self.rebind(outnode, fr.env[outnode.id], r, fr)
                return r
            if isinstance(x, Scal) and isinstance(y, Scal):
                return self.binop(x, y, ast.Add(), e, fr)
            self.unsupported("%s on %r, %r" % (qn, x, y), e, fr)
        if qn in ("numpy.divide", "numpy.true_divide", "numpy.ma.divide", "numpy.ma.true_divide"):
            x, y = (A + [None, None])[:2]
            if isinstance(x, Arr) or isinstance(y, Arr):
                self.res.divisions.append((e.lineno, x, y, e, self.fkey(fr), qn))
                if isinstance(x, Arr) and isinstance(y, Arr):
                    self.res.binops.append((e, "Div", x.D, y.D, self.fkey(fr)))
                out_ = self.binop(x, y, ast.Div(), e, fr)
                if isinstance(out_, Arr):
                    self.res.div_results[id(e)] = out_.alias
                return out_
            return Scal(dt=F_)
        if qn in ("numpy.logical_or", "numpy.logical_and", "numpy.logical_xor", "numpy.ma.mask_or", "numpy.ma.logical_or", "numpy.ma.logical_and") and any(isinstance(a_, ast.Starred) for a_ in e.args):
            # f(*masks): a binary ufunc takes (x1, x2, out) positionally - with three elements the third IS the output buffer
            # (and any other count is a TypeError)
            for a_, v_ in zip(e.args, A):
                if isinstance(a_, ast.Starred) and isinstance(v_, Lst) and v_.what in ("masks", "arrs") and v_.L:
                    el_ = self.part_elem(v_)
                    if isinstance(el_, Arr):
                        self.write_site(replace(el_, alias=el_.alias | el_.maskof), e, "third positional argument of the binary ufunc %s is its `out` buffer" % qn.split(".")[-1], fr)
                        return replace(el_, isbool=True, dt=B_, alias=S(), M=E, maskof=E)
            self.unsupported("%s with starred arguments" % qn, e, fr)
        if qn in ("numpy.logical_or", "numpy.logical_and", "numpy.logical_xor", "numpy.ma.mask_or", "numpy.ma.logical_or", "numpy.ma.logical_and"):
            x, y = (A + [None, None])[:2]
            out_l = K.get("out", A[2] if len(A) > 2 and not qn.endswith("mask_or") else None)
            if isinstance(out_l, Arr):
                # the accumulator of an in-place mask union: `getmaskarray(x)` IS x's own mask whenever x carries a real one
                # (numpy.ma.getmaskarray returns `arr._mask` unless it is nomask), so the write lands in the input (write_site adds maskof)
                self.write_site(out_l, e, "out= of %s" % qn, fr)
            if isinstance(x, Arr) and isinstance(y, Arr):
                op = ast.BitOr() if qn.endswith("or") and not qn.endswith("xor") else (ast.BitXor() if qn.endswith("xor") else ast.BitAnd())
                r = self.binop_arr(x, y, op, e, fr)
                M = (x.M | y.M) if isinstance(op, ast.BitOr) else (x.M & y.M)
                both_masks = bool(x.isbool and y.isbool)
                r = replace(r, isbool=True, dt=B_, M=M if both_masks else r.M, kind=r.kind if ".ma." in qn and not qn.endswith("mask_or") else ("plain" if both_masks and x.kind != "masked" and y.kind != "masked" else r.kind),
                            maskof=x.maskof | y.maskof if both_masks else E, freshmask=not qn.endswith("mask_or"))  # (mask_or may hand back one of its operands)
                if isinstance(out_l, Arr):
                    # the union lands in the accumulator: the name given as out= holds the result from here on (same storage as before)
                    r = replace(r, alias=out_l.alias, maskof=(r.maskof | out_l.maskof), freshmask=out_l.freshmask)
                    outnode_l = next((k_.value for k_ in e.keywords if k_.arg == "out"), e.args[2] if len(e.args) > 2 else None)
                    if isinstance(outnode_l, ast.Name) and isinstance(fr.env.get(outnode_l.id), Arr):
                        self.rebind(outnode_l, fr.env[outnode_l.id], r, fr)
                return r
            if isinstance(x, Arr) or isinstance(y, Arr):
                arr = x if isinstance(x, Arr) else y
                return replace(arr, isbool=True, dt=B_, alias=S(), M=arr.M if qn.endswith("or") else E)
            return Other("bool")
        if qn in ("numpy.logical_not", "numpy.invert", "numpy.ma.logical_not"):
            if isinstance(a0, Arr):
                return replace(a0, alias=S(), M=E if a0.kind != "masked" else a0.M, isbool=True, dt=B_, maskof=E, cmp=negate_cmp(a0.cmp), validof=a0.maskof if a0.isbool else E)
            return Other("bool")
        if qn in ("numpy.abs", "numpy.absolute", "numpy.ma.abs", "numpy.negative", "numpy.sqrt", "numpy.ma.sqrt", "numpy.exp", "numpy.ma.exp", "numpy.log", "numpy.ma.log",
                  "numpy.rint", "numpy.round", "numpy.around", "numpy.floor", "numpy.ceil", "numpy.trunc", "numpy.sign", "numpy.square", "numpy.nan_to_num", "numpy.ma.fix_invalid",
                  "numpy.isnan", "numpy.isfinite", "numpy.isinf", "numpy.signbit", "numpy.isneginf", "numpy.isposinf", "numpy.tanh", "numpy.float64", "numpy.float32", "numpy.int64", "numpy.int32", "numpy.uint", "numpy.ma.masked_invalid") \
                or (qn.startswith(("numpy.ma.", "numpy.")) and qn.count(".") <= 2 and qn.split(".")[-1] in UNARY_UFUNCS):
            out = K.get("out")
            if isinstance(out, Arr):
                self.write_site(out, e, "out= of %s" % qn, fr)
            if isinstance(a0, Arr):
                dt = a0.dt
                if qn.split(".")[-1] in ("sqrt", "exp", "log", "tanh", "float64", "float32") or qn.split(".")[-1] in FLOAT_UFUNCS:
                    dt = F_
                if qn.split(".")[-1] in ("isnan", "isfinite", "isinf", "signbit", "isneginf", "isposinf"):
                    return replace(a0, alias=S(), isbool=True, dt=B_, rng=(None, None), maskof=E, dataof=E, M=E if a0.kind != "masked" else a0.M,
                                   cmp=(a0.alias | a0.dataof, "Finite", None) if qn.endswith(".isfinite") else None)
                return replace(a0, alias=out.alias if isinstance(out, Arr) else S(), dt=dt, rng=(None, None), maskof=E, dataof=E if not isinstance(out, Arr) else out.dataof, cmp=None)
            if isinstance(a0, Scal):
                return Scal(D=a0.D, Pg=a0.Pg, dt=F_ if "float" in qn or qn.endswith(("sqrt", "exp", "log")) else a0.dt)
            return Scal()
        if qn in ("numpy.clip", "numpy.ma.clip"):
            lo = A[1] if len(A) > 1 else K.get("a_min")
            hi = A[2] if len(A) > 2 else K.get("a_max")
            out = K.get("out")
            if isinstance(out, Arr):
                self.write_site(out, e, "out= of clip", fr)
            if isinstance(a0, Arr):
                keepmask = a0.kind == "masked" and qn == "numpy.ma.clip" or a0.kind == "masked"
                outnode = next((k_.value for k_ in e.keywords if k_.arg == "out"), None)
                if isinstance(out, Arr) and isinstance(outnode, ast.Name) and (out is a0 or (out.alias and out.alias == a0.alias)):
                    # clip(x, lo, hi, out=x): x is limited in place.  When x is the data buffer of a masked array (`y.data`,
                    # getdata(y) - a view, A31) the values of y are limited with it; y's mask is not touched
                    new_ = replace(out, rng=(scal_id(lo), scal_id(hi)))
                    owners = [(k_, w_) for k_, w_ in fr.env.items() if isinstance(w_, Arr) and w_ is not out and out.dataof and (w_.alias & out.dataof) and not w_.isbool]
                    self.rebind(outnode, out, new_, fr)
                    for k_, w_ in owners:
                        self.rebind(ast.Name(id=k_, ctx=ast.Load()), w_, replace(w_, rng=(scal_id(lo), scal_id(hi))), fr)
                    return new_
                return replace(a0, alias=out.alias if isinstance(out, Arr) else S(), rng=(scal_id(lo), scal_id(hi)), maskof=E, dataof=E, M=a0.M if keepmask else E)
            return Scal()
        # ---- selection
        if qn in ("numpy.ma.where", "numpy.where"):
            if len(A) == 1:
                if isinstance(a0, Arr):
                    return Other("index", a0)
                return Other("opaque")
            arrs = [x for x in A if isinstance(x, Arr)]
            self.res.wheres.append((e, A[0], A[1] if len(A) > 1 else None, A[2] if len(A) > 2 else None, self.fkey(fr)))
            if not arrs:
                return Scal()
            r = arrs[0]
            for x in arrs[1:]:
                r = self.binop_arr(r, x, ast.Add(), e, fr)
            ds = [(x.dt if isinstance(x, (Arr, Scal)) else IF_) for x in A[1:3]]
            dt = promote(ds[0], ds[1]) if len(ds) == 2 else IF_
            D = r.D
            Pg = r.Pg
            for x in A:
                if isinstance(x, Scal):
                    D |= x.D
                    Pg |= x.Pg
            if qn == "numpy.ma.where":
                M = frozenset().union(*[x.M for x in arrs if x.kind == "masked" or x.isbool and x.maskof]) if arrs else E
                c = A[0]
                Pc = r.Pc
                cmpv = c.cmp if isinstance(c, Arr) and all(isinstance(x, Other) and x.tag == "bool" for x in A[1:3]) else None
                ung = E
                xv, yv = (A + [None, None, None])[1:3]
                for side, other in ((xv, yv), (yv, xv)):
                    if isinstance(side, Arr):
                        u = side.unguarded
                        if isinstance(c, Arr) and c.cmp is not None and len(c.cmp) > 3 and isinstance(other, Scal) and other.const is not None and other.const == (c.cmp[2][1] if c.cmp[2] and c.cmp[2][0] == "c" else None):
                            # where(sel <= bound, bound, quotient): the quotient is used only where sel > bound
                            quotient_is_else = side is yv
                            ok_op = (c.cmp[1] in ("LtE", "Eq") and quotient_is_else) or (c.cmp[1] in ("Gt", "NotEq") and not quotient_is_else)
                            if ok_op:
                                u = u - {c.cmp[3]}
                        ung = ung | u
                return replace(r, isbool=cmpv is not None, kind="masked", alias=S(), dt=dt, dtprov=E, D=D, Pg=Pg, M=M, Pc=Pc, rng=(None, None), cmp=cmpv, maskof=E, dataof=E, sel=None, constmask=False, unguarded=ung)
            # numpy.where(c, a, b): plain; when used to build a mask keep coverage of boolean operands
            allbool = all((isinstance(x, Arr) and x.isbool) or (isinstance(x, Other) and x.tag == "bool") for x in A[1:3])
            c = A[0]
            M = E
            if allbool:
                # where(c, True, m): true wherever m is true -> covers what m covers
                t, f = A[1], A[2]
                t_true = isinstance(t, Other) and t.info is True
                f_true = isinstance(f, Other) and f.info is True
                if isinstance(f, Arr) and t_true:
                    M = f.M
                elif isinstance(t, Arr) and f_true:
                    M = t.M
                elif isinstance(t, Arr) and isinstance(f, Arr):
                    M = t.M & f.M
            Pc = r.Pc
            for x in arrs:
                if x.kind == "masked":
                    Pc |= x.D
            return replace(r, kind="plain", isbool=allbool, alias=S(), M=M, dt=B_ if allbool else dt, D=D, Pg=Pg, Pc=Pc, rng=(None, None),
                           cmp=c.cmp if isinstance(c, Arr) and allbool else None, maskof=E, dataof=E, constmask=False)
        # ---- stacking
        if qn in ("numpy.vstack", "numpy.stack", "numpy.ma.vstack", "numpy.ma.stack", "numpy.concatenate", "numpy.ma.concatenate", "numpy.hstack", "numpy.dstack", "numpy.row_stack"):
            shape = "stacked" if qn in ("numpy.stack", "numpy.ma.stack") and not ("axis" in K and not (isinstance(K["axis"], Scal) and K["axis"].const == 0)) else "rankdep"
            if qn in ("numpy.concatenate", "numpy.ma.concatenate", "numpy.hstack", "numpy.dstack"):
                shape = "unknown"
            if isinstance(a0, Lst) and a0.what in ("arrs", "masks") and a0.L:
                el = self.part_elem(a0)
                if el.shape == "raveled" and shape == "stacked":
                    shape = "stackedflat"  # every layer flattened the same way: (layers, cells in storage order)
                elif el.shape != "same":
                    shape = "unknown"
                kind = el.kind if ".ma." in qn else "plain"
                pc = el.Pc | (el.D if el.kind == "masked" and kind == "plain" else E)
                return replace(el, shape=shape, alias=S(), kind=kind, M=el.M if kind == "masked" else (el.M if el.isbool else E), Pc=pc, maskof=E, dataof=E, rng=(None, None),
                               layermask=kind == "masked" and len(el.M) > 1 and not (isinstance(a0.elem, Arr) and a0.elem.M and "ELEM" not in a0.elem.M),  # (every layer was given the same, complete mask)
                               maskalias=E)  # stacking allocates the data and (numpy.ma) the mask anew
            if isinstance(a0, Lst) and a0.items is not None and all(isinstance(x, Arr) for x in a0.items) and a0.items:
                r = a0.items[0]
                for x in a0.items[1:]:
                    r = self.binop_arr(r, x, ast.Add(), e, fr)
                return replace(r, shape=shape, alias=S(), kind="plain" if ".ma." not in qn else r.kind)
            if (isinstance(a0, Lst) and a0.what in ("opaque", "mixed") and a0.items is None) or (isinstance(a0, Other) and a0.tag in ("join", "opaque")):
                # the list was built in a way the analyser does not follow (appends mixed with other work): no verdict
                self.unsupported("stacking a list whose construction is not followed", e, fr)
            return Arr(kind="plain", alias=S(), shape="unknown", dt=IF_)
        if qn in ("numpy.broadcast_to",):
            shp = A[1] if len(A) > 1 else K.get("shape")
            if isinstance(a0, Arr):
                ns = shp.srcs[0] if isinstance(shp, Lst) and shp.what == "shape" and shp.srcs else "unknown"
                return replace(a0, shape=ns, alias=a0.alias)
            return Arr(kind="plain", alias=S(), shape="unknown")
        if qn in ("numpy.ma.mean", "numpy.ma.std", "numpy.ma.var", "numpy.ma.sum", "numpy.ma.min", "numpy.ma.max", "numpy.ma.median", "numpy.ma.average",
                  "numpy.mean", "numpy.std", "numpy.var", "numpy.sum", "numpy.min", "numpy.max", "numpy.amin", "numpy.amax", "numpy.median", "numpy.average",
                  "numpy.nanmean", "numpy.nanmin", "numpy.nanmax", "numpy.nanstd", "numpy.ptp", "numpy.prod", "numpy.ma.prod", "numpy.ma.count", "numpy.any", "numpy.all"):
            meth = qn.split(".")[-1].replace("nan", "").replace("amin", "min").replace("amax", "max").replace("average", "mean")
            if isinstance(a0, Lst) and a0.what in ("arrs", "masks") and (K.get("axis") is not None or len(A) > 1):
                # A21: a list of arrays is stacked first - numpy.ma.* keeps one mask per layer, numpy.* drops the masks
                a0 = self.builtin("numpy.ma.array" if qn.startswith("numpy.ma.") else "numpy.array", e, [a0], {}, fr)
            if isinstance(a0, Arr):
                ax = K.get("axis", A[1] if len(A) > 1 else None)
                if ax is None or (isinstance(ax, Other) and ax.tag == "none"):
                    return self.reduce_scalar(a0, meth, e, fr)
                out = self.axis_reduce(a0, ax, e, fr, meth)
                w = K.get("weights", A[2] if len(A) > 2 and qn.endswith(".average") else None)
                if qn.endswith(".average") and w is not None and not (isinstance(w, Other) and w.tag == "none") and isinstance(out, Arr):
                    # weighted layer mean: sum(w_i * layer_i) / sum(w_i), divided as masked arrays in numpy.ma.average (A3)
                    wD = w.D if isinstance(w, (Arr, Scal)) else (w.elem.D if isinstance(w, Lst) and isinstance(w.elem, Scal) else E)
                    out = replace(out, D=out.D | wD)
                    self.res.layer_reduces.append((e, a0.sel, "weighted-average" if qn.startswith("numpy.ma.") else "weighted-average-plain", self.fkey(fr)))
                return out
            if isinstance(a0, Lst):
                el = a0.elem if isinstance(a0.elem, Scal) else Scal()
                return Scal(D=el.D, Pg=el.Pg)
            if isinstance(a0, Scal):
                return a0
            return Scal()
        if qn.endswith(".reduce") and qn.split(".")[-2] in ("minimum", "maximum", "add", "multiply", "logical_or", "logical_and", "bitwise_or", "bitwise_and", "fmin", "fmax"):
            # ufunc.reduce: A21 - given a list, even numpy.ma.<ufunc>.reduce converts it with numpy.array(): masks are dropped
            if isinstance(a0, Lst) and a0.what in ("arrs", "masks"):
                a0 = self.builtin("numpy.array", e, [a0], {}, fr)
            if isinstance(a0, Arr):
                ax = K.get("axis", A[1] if len(A) > 1 else Scal(dt=I_, const=0))
                if isinstance(ax, Other) and ax.tag == "none":
                    return self.reduce_scalar(a0, qn.split(".")[-2], e, fr)
                return self.axis_reduce(a0, ax, e, fr, {"minimum": "min", "maximum": "max", "add": "sum", "multiply": "prod", "fmin": "min", "fmax": "max", "logical_or": "any", "bitwise_or": "any",
                                                        "logical_and": "all", "bitwise_and": "all"}.get(qn.split(".")[-2], qn.split(".")[-2]))
            return Scal()
        if qn in ("numpy.savetxt", "numpy.save", "numpy.savez"):
            self.res.effects.append(("file-write", e.lineno, _src(e)[:80], self.fkey(fr)))
            return Other("none")
        if qn in ("numpy.dot", "numpy.ma.dot", "numpy.matmul", "numpy.inner", "numpy.ma.inner", "numpy.tensordot", "numpy.einsum", "numpy.vdot", "numpy.outer", "numpy.ma.outer"):
            arrs = [x for x in A if isinstance(x, Arr)]
            if not arrs:
                return Scal()
            if qn in ("numpy.dot", "numpy.ma.dot") and len(A) == 2 and isinstance(A[1], Arr) and A[1].shape == "stackedflat" and (isinstance(A[0], Arr) and A[0].shape == "layervec" or isinstance(A[0], Lst) and A[0].what == "nums"):
                # (layers,) . (layers, cells): contracts the layer axis whatever the rank of the data was (A28)
                st = A[1]
                strict = K.get("strict")
                keeps = qn == "numpy.ma.dot" and isinstance(strict, Other) and strict.info is True
                w = A[0]
                wD = w.D if isinstance(w, Arr) else (w.elem.D if isinstance(w.elem, Scal) else E)
                M = (st.M | (frozenset(t for t in st.D if is_input_token(t)) if st.layermask else E)) if (keeps and st.kind == "masked") else E
                return Arr(kind="masked" if ".ma." in qn else "plain", alias=S(), M=M, D=st.D | wD, Pc=st.Pc | (E if keeps else st.D), shape="raveled", dt=promote(st.dt, IF_))
            # a contraction pairs the last axis of one operand with the second-to-last of the other: which axis that is
            # depends on the rank of the data (A25); numpy.ma.dot also treats masked cells as 0 unless strict=True
            self.finding("equivariance", e, "%s contracts over an axis chosen by position: for data of rank >= 2 it mixes cells of one layer instead of combining layers (or fails), and masked cells enter as 0" % qn, fr)
            D = frozenset().union(*[x.D for x in arrs])
            Pc = frozenset().union(*[x.Pc | x.D for x in arrs])
            return Arr(kind="masked" if ".ma." in qn else "plain", alias=S(), M=E, D=D, Pc=Pc, shape="unknown", dt=IF_)
        if qn in ("numpy.unique", "numpy.ma.unique"):
            if isinstance(a0, Arr):
                vals = replace(a0, alias=S(), shape="flat", maskof=E, dataof=E, rng=(None, None))
                extra = [k for k in ("return_index", "return_inverse", "return_counts") if isinstance(K.get(k), Other) and K[k].info is True]
                if not extra:
                    return vals
                pos = replace(a0, alias=S(), shape="unknown", dt=I_, maskof=E, dataof=E, rng=(None, None), kind="plain", M=E)
                # return_inverse: for every cell of the (raveled) input the position of its value among the distinct values - a
                # cell-wise quantity in storage order (A30); numpy 1.x delivers it 1-D, 2.x in the input's shape: `raveled` stands for
                # both, `.reshape(x.shape)` restores the grid either way
                inv = replace(pos, shape="raveled" if a0.shape == "same" and "axis" not in K else "unknown", sel=("inverse", tuple(sorted(vals.alias))))
                return Lst("mixed", items=(vals,) + tuple(inv if k_ == "return_inverse" else pos for k_ in extra))
            return Other("opaque")
        if qn in ("numpy.sort", "numpy.ma.sort", "numpy.partition", "numpy.argsort", "numpy.ravel", "numpy.reshape", "numpy.transpose", "numpy.flip", "numpy.roll", "numpy.cumsum", "numpy.diff",
                  "numpy.take", "numpy.squeeze", "numpy.expand_dims", "numpy.swapaxes", "numpy.moveaxis", "numpy.tile", "numpy.repeat", "numpy.flipud", "numpy.fliplr",
                  "numpy.ma.ravel", "numpy.ma.reshape", "numpy.ma.transpose", "numpy.ma.squeeze", "numpy.ma.expand_dims", "numpy.ma.swapaxes", "numpy.ma.cumsum", "numpy.ma.diff", "numpy.ma.take",
                  "numpy.ma.repeat", "numpy.ma.argsort", "numpy.atleast_1d", "numpy.atleast_2d", "numpy.atleast_3d", "numpy.ma.atleast_1d", "numpy.ma.atleast_2d", "numpy.ma.atleast_3d"):
            if isinstance(a0, Arr) and qn in ("numpy.sort", "numpy.ma.sort") and a0.shape in ("layervec", "flat") and len(A) == 1 and "axis" not in K:
                # a sorted copy of a private 1-D collection of values: fresh, ascending, no grid cell moves
                return replace(a0, alias=S(), ascending=True, maskof=E, dataof=E, cmp=None, sel=None)
            if isinstance(a0, Arr) and qn in ("numpy.argsort", "numpy.ma.argsort") and a0.shape in ("layervec", "flat") and len(A) == 1 and "axis" not in K:
                # the permutation that puts a 1-D collection in ascending order: x[argsort(x)] is ascending
                return Arr(kind="plain", alias=S(), shape=a0.shape, dt=I_, D=a0.D, Pg=a0.Pg, sel=("argsort", tuple(sorted(a0.alias))))
            if isinstance(a0, Arr) and qn == "numpy.tile" and len(e.args) == 2 and a0.shape == "same":
                # tile(x, [n] + [1] * x.ndim): n copies of x along a new leading axis, for every rank (a fresh array)
                rp = e.args[1]
                x_src = _src(e.args[0])
                if isinstance(rp, ast.BinOp) and isinstance(rp.op, ast.Add) and isinstance(rp.left, (ast.List, ast.Tuple)) and len(rp.left.elts) == 1 \
                        and isinstance(rp.right, ast.BinOp) and isinstance(rp.right.op, ast.Mult):
                    ones, cnt = rp.right.left, rp.right.right
                    if not isinstance(ones, (ast.List, ast.Tuple)):
                        ones, cnt = cnt, ones
                    if isinstance(ones, (ast.List, ast.Tuple)) and len(ones.elts) == 1 and isinstance(ones.elts[0], ast.Constant) and ones.elts[0].value == 1 \
                            and isinstance(ones, type(rp.left)) and _src(cnt) in ("%s.ndim" % x_src, "len(%s.shape)" % x_src, "numpy.ndim(%s)" % x_src):
                        return replace(a0, alias=S(), shape="stacked", maskof=E, dataof=E, maskalias=E, layermask=False)
            if isinstance(a0, Arr) and qn == "numpy.moveaxis" and len(A) == 3 and not K and a0.shape == "stacked" \
                    and isinstance(A[1], Scal) and A[1].const == 0 and isinstance(A[2], Scal) and A[2].const == -1:
                # (layers, d1..dr) -> (d1..dr, layers): the cell axes keep their order for every rank (swapaxes would not); a view
                return replace(a0, shape="stackedlast", alias=a0.alias | S())
            if isinstance(a0, Arr):
                ax = K.get("axis", A[1] if len(A) > 1 else None)
                if qn in ("numpy.sort", "numpy.ma.sort") and a0.shape == "stacked" and isinstance(ax, Scal) and ax.const == 0:
                    return replace(a0, alias=S(), sorted0=True)
                if qn in ("numpy.partition",) and a0.shape == "stacked" and isinstance(K.get("axis", A[2] if len(A) > 2 else None), Scal) and K.get("axis", A[2] if len(A) > 2 else None).const == 0:
                    # a partial sort along the layer axis: only the pivot position is in place, the layers are NOT sorted
                    kth = A[1] if len(A) > 1 else K.get("kth")
                    if not isinstance(kth, Scal):
                        # several pivots (an array of positions): which layers end up in their sorted place depends on that array
                        self.unsupported("numpy.partition with an array of pivot positions (which layers are in sorted position is not modelled)", e, fr)
                    return replace(a0, alias=S(), sorted0=False)
                if a0.shape in ("same", "stacked", "rankdep"):
                    self.finding("equivariance", e, "%s is position dependent on data axes: %s" % (qn, _src(e)), fr)
                return replace(a0, alias=S(), shape="unknown")
            return Other("opaque")
        # ---- python builtins
        if short in ("float", "int", "bool", "abs", "round", "complex"):
            if isinstance(a0, Scal):
                c = a0.const
                return Scal(D=a0.D, Pg=a0.Pg, dt=F_ if short == "float" else I_ if short == "int" else a0.dt, sym=a0.sym if short != "bool" else None,
                            const=(float(c) if short == "float" else int(c) if short == "int" else c) if isinstance(c, (int, float)) and short in ("float", "int") else None)
            if isinstance(a0, Arr):
                return Scal(D=a0.D, Pg=a0.Pg | a0.Pc)
            return Scal(dt=F_ if short == "float" else I_ if short == "int" else IF_)
        if short == "len":
            if isinstance(a0, Arr) and a0.shape == "same":
                self.finding("equivariance", e, "len() of a data array reads the size of one axis", fr)
            src = None
            if isinstance(a0, Lst) and a0.L:
                src = "len(%s:%s)" % (a0.L, a0.part)
            elif isinstance(a0, Lst) and a0.srcs:
                src = "len(%s)" % ",".join(map(str, a0.srcs))
            return Scal(dt=I_, sym=src)
        if short in ("sum", "min", "max"):
            if isinstance(a0, Lst) and a0.what == "arrs" and a0.L and short == "sum":
                el = self.part_elem(a0)
                start = A[1] if len(A) > 1 else K.get("start")
                r = replace(el, alias=S(), rng=(None, None), maskof=E, dataof=E)  # A6: 0 + m0 + ... is fresh
                if isinstance(start, Arr):
                    r = self.binop_arr(r, start, ast.Add(), e, fr)
                return r
            if isinstance(a0, Lst) and a0.what in ("arrs", "masks"):
                self.unsupported("%s over a list of arrays" % short, e, fr)
            if isinstance(a0, Lst):
                el = a0.elem if isinstance(a0.elem, Scal) else Scal()
                srcs = ",".join(map(str, a0.srcs)) + ("[%s:%s]" % a0.sliced if a0.sliced else "")
                return Scal(D=el.D, Pg=el.Pg, sym="%s(%s)" % (short, srcs) if a0.srcs else None)
            if isinstance(a0, Arr) and short == "sum" and a0.shape == "stacked" and len(A) == 1:
                # 0 + layer0 + layer1 + ...: the layers added cell by cell; a cell missing in any layer is missing in the sum
                M = a0.M | (frozenset(t for t in a0.D if is_input_token(t)) if (a0.kind == "masked" and a0.layermask) else E)
                return replace(a0, shape="same", alias=S(), sel=None, sorted0=False, layermask=False, M=M if a0.kind == "masked" else E, rng=(None, None), maskof=E, dataof=E)
            if isinstance(a0, Arr):
                self.finding("equivariance", e, "python %s() over an array iterates its first axis" % short, fr)
                return replace(a0, shape="unknown", alias=S())
            D = E
            Pg = E
            for x in A:
                if isinstance(x, Scal):
                    D |= x.D
                    Pg |= x.Pg
            rng = (None, None)
            if short in ("min", "max") and len(A) == 2 and all(isinstance(x, Scal) for x in A) and not K:
                # min(x, c) is at most c and keeps x's lower bound when c is not below it; max(x, c) likewise
                consts = [x for x in A if x.const is not None]
                others = [x for x in A if x.const is None]
                if len(consts) == 2 and all(isinstance(x.const, (int, float)) and not isinstance(x.const, bool) for x in consts):
                    return Scal(const=(min if short == "min" else max)(consts[0].const, consts[1].const), dt=promote(consts[0].dt, consts[1].dt) if consts[0].dt and consts[1].dt else consts[0].dt)
                if len(consts) == 1 and len(others) == 1:
                    c, o = consts[0], others[0]
                    lo, hi = o.rng
                    if short == "min":
                        keep_lo = lo if (lo is not None and lo[0] == "c" and lo[1] <= c.const) else None
                        rng = (keep_lo, ("c", c.const))
                    else:
                        keep_hi = hi if (hi is not None and hi[0] == "c" and hi[1] >= c.const) else None
                        rng = (("c", c.const), keep_hi)
                    if o.sym:
                        sym_ = o.sym if o.sym.startswith("clamped(") else "clamped(%s)" % o.sym
                        return Scal(D=D, Pg=Pg, rng=rng, sym=sym_)
            return Scal(D=D, Pg=Pg, rng=rng)
        if qn == "functools.reduce":
            return self.call_reduce(e, A, fr)
        if short == "sorted":
            self.res.sorteds.append((e, a0, self.fkey(fr)))
            if isinstance(a0, Lst) and a0.what == "zip":
                D = E
                Pg = E
                for z in a0.zipped:
                    if isinstance(z, Lst) and isinstance(z.elem, Scal):
                        D |= z.elem.D
                        Pg |= z.elem.Pg
                return Lst("pairs", sorted_=True, srcs=a0.srcs, elem=Scal(D=D, Pg=Pg))
            if isinstance(a0, Lst):
                return replace(a0, sorted_=True, argobj=None)
            return Lst("opaque")
        if short == "zip":
            self.res.zips.append((e, tuple(A), self.fkey(fr)))
            return Lst("zip", srcs=tuple(getattr(x, "srcs", ()) for x in A), zipped=tuple(A))
        if short == "enumerate":
            return Lst("enum", elem=a0)
        if short == "slice":
            none = lambda x: None if (x is None or isinstance(x, Other) and x.tag == "none") else x  # noqa: E731
            if len(A) == 1:
                return Other("slice", (None, none(A[0])))
            if len(A) == 2 or (len(A) == 3 and none(A[2]) is None):
                return Other("slice", (none(A[0]), none(A[1])))
            return Other("slice", (Other("opaque"), Other("opaque")))
        if qn == "itertools.islice" and isinstance(a0, Lst):
            none = lambda x: None if (x is None or isinstance(x, Other) and x.tag == "none") else x  # noqa: E731
            if len(A) == 2:
                sl = Other("slice", (None, none(A[1])))
            elif len(A) == 3 or (len(A) == 4 and none(A[3]) is None):
                sl = Other("slice", (none(A[1]), none(A[2])))
            else:
                sl = Other("slice", (Other("opaque"), Other("opaque")))
            return self.sub_list(a0, sl, e, fr)
        if short in ("list", "tuple", "iter", "reversed"):
            if a0 is None:
                return Lst("mixed", items=())
            if isinstance(a0, Arr):
                self.finding("equivariance", e, "%s() of an array walks a data axis" % short, fr)
                return Lst("opaque")
            if isinstance(a0, Lst) and short == "reversed" and a0.what in ("arrs", "cmds"):
                return a0
            return replace(a0, argobj=None, isiter=(short == "iter")) if isinstance(a0, Lst) else Lst("opaque")
        if short in ("set", "frozenset"):
            return Other("set")
        if short == "range":
            lo = 0
            stop = A[-1] if A else None
            if len(A) >= 2 and isinstance(A[0], Scal) and isinstance(A[0].const, int):
                lo = A[0].const
            elif len(A) >= 2:
                lo = None
            if isinstance(stop, Scal) and stop.sym and stop.sym.startswith("len(") and lo in (0, 1) and len(A) <= 2:
                return Lst("range", sliced=(lo, None), srcs=(stop.sym,))
            return Lst("range")
        if short == "dict":
            if isinstance(a0, Kw):
                k2 = a0.copy()
                for k, v in K.items():
                    k2.d[k] = v
                return k2
            return Kw(K) if K else Other("dict")
        if short == "isinstance" and len(e.args) == 2 and isinstance(a0, Arr):
            cq = self.q(e.args[1], fr) if isinstance(e.args[1], (ast.Name, ast.Attribute)) else None
            if cq in ("numpy.ma.MaskedArray", "numpy.ma.masked_array", "numpy.ma.core.MaskedArray"):
                # under the inductive hypothesis a data input is a MaskedArray; a value built plain is not
                if a0.kind == "masked":
                    return Other("bool", True)
                if a0.kind == "plain":
                    return Other("bool", False)
        if short in ("isinstance", "issubclass", "hasattr", "callable", "any", "all"):
            return Other("bool")
        if short in ("str", "repr", "format"):
            return Other("str")
        if short == "print":
            self.res.effects.append(("print", e.lineno, _src(e)[:80], self.fkey(fr)))
            return Other("none")
        if short == "open":
            mode = A[1] if len(A) > 1 else K.get("mode")
            m = mode.info if isinstance(mode, Other) and mode.tag == "str" else "r"
            self.res.effects.append(("open-" + ("write" if m and any(c in m for c in "wax+") else "read"), e.lineno, _src(e)[:80], self.fkey(fr), e))
            return Other("file")
        if short in ("getattr", "setattr", "dir", "next", "vars", "id", "type", "hash", "divmod", "pow", "map", "filter"):
            if short == "setattr" and A and isinstance(A[0], Other) and A[0].tag == "self":
                self.res.selfstores.append((e.lineno, "setattr", e, self.fkey(fr)))
            if short in ("pow", "divmod"):
                return Scal()
            return Other("opaque", short)
        if qn in ("netCDF4.Dataset",):
            mode = A[1] if len(A) > 1 else K.get("mode")
            m = mode.info if isinstance(mode, Other) and mode.tag == "str" else "r"
            self.res.effects.append(("open-" + ("write" if m and any(c in m for c in "wax+") else "read"), e.lineno, _src(e)[:80], self.fkey(fr), e))
            return Other("ncds")
        if qn.startswith("csv.") or qn.startswith("os.") or qn.startswith("packaging.") or qn.startswith("six.") or qn.startswith("warnings.") or qn.startswith("logging."):
            if qn in ("os.remove", "os.unlink", "os.rename", "os.makedirs", "os.mkdir", "os.rmdir", "os.system", "os.replace"):
                self.res.effects.append(("os-mutation", e.lineno, _src(e)[:80], self.fkey(fr), e))
            return Other("opaque", qn)
        if qn.startswith("builtins.") and (qn.endswith("Error") or qn.split(".")[-1] in ("Exception", "StopIteration", "Warning", "UserWarning", "DeprecationWarning")):
            return Other("opaque", qn)  # an exception object being built (to be raised)
        if qn in ("time.time", "time.monotonic", "time.perf_counter", "time.process_time", "time.clock"):
            return Scal()  # a number of the clock: no array, no effect on the model
        if qn.startswith("numpy.") and not any(isinstance(x, (Arr,)) for x in list(A) + list(K.values())) and not any(isinstance(x, Lst) and x.what in ("arrs", "masks") for x in A):
            return Other("opaque", qn)
        if qn.endswith(".format") or qn.endswith(".join"):
            return Other("str")
        self.unsupported("call of %s" % qn, e, fr)

    def make_masked_array(self, qn, e, A, K, fr):
        out = self._make_masked_array(qn, e, A, K, fr)
        if isinstance(out, Arr) and out.kind == "masked":
            out = replace(out, ownmask=True)
        return out

    def _make_masked_array(self, qn, e, A, K, fr):
        S = self.S(e)
        a0 = A[0] if A else K.get("data")
        mask = K.get("mask", A[1] if len(A) > 1 and qn != "numpy.ma.asarray" else None)
        dtv = K.get("dtype")
        dt = None
        if isinstance(dtv, Other) and dtv.tag == "type":
            dt = {"builtins.float": F_, "builtins.int": I_, "builtins.bool": B_}.get(dtv.info, IF_)
        elif isinstance(dtv, Other) and dtv.tag == "str":
            self.finding("dtype-arg", e, "a string %r is passed as dtype" % (dtv.info,), fr)
        elif isinstance(dtv, Other) and dtv.tag == "dtype" and isinstance(dtv.info, Arr):
            dt = dtv.info.dt  # dtype=other.dtype / numpy.result_type(...): the element type worked out there
        elif dtv is not None and not (isinstance(dtv, Other) and dtv.tag == "none"):
            dt = IF_
        if isinstance(a0, Arr) and isinstance(mask, Other) and mask.tag == "bool" and mask.info is True:
            # mask=True: every cell is missing.  Such a value is missing wherever any input is, and no cell of it shows a value
            # computed from anything: coverage and dependence are those of "all inputs" (vacuously)
            alltok = frozenset()
            for nm, (kind_, _x) in self.decl.ref_inputs().items():
                alltok |= frozenset({nm}) if kind_ == "cmd" else frozenset({nm + "#0", nm + "#r"})
            return replace(a0, kind="masked", M=alltok, D=alltok, Pc=E, Pg=E, alias=S, dt=dt or a0.dt, constmask=False, maskof=E, dataof=E, rng=(None, None), maskalias=E)
        if isinstance(a0, Arr):
            cov = a0.M if a0.kind == "masked" else E
            shape = a0.shape
            const = a0.constmask if a0.kind == "masked" else True
            pc = a0.Pc
            malias = a0.maskalias if a0.kind == "masked" else E
            if isinstance(mask, Arr):
                if mask.cmp is not None and mask.cmp[1] == "NotFinite" and mask.cmp[0] & (a0.alias | a0.dataof):
                    self.res.finite_masked.append(a0.alias | a0.dataof)  # every inf / nan cell of the data is missing in the result
                cov = cov | mask.M
                const = const and mask.constmask
                malias = malias | (E if mask.freshmask else mask.maskof) | frozenset(t for t in mask.alias if is_input_token(t))  # A14: the mask argument is not copied
                if mask.shape != a0.shape:
                    shape = "rankdep" if "rankdep" in (mask.shape, a0.shape) else "unknown"
            elif mask is not None and not (isinstance(mask, Other) and mask.tag == "none"):
                const = const and True
            asarr = qn in ("numpy.ma.asarray", "numpy.ma.asanyarray")
            copyv = K.get("copy")
            shares = asarr or not (isinstance(copyv, Other) and copyv.info is True)
            return replace(a0, kind="masked", M=cov, shape=shape, alias=(a0.alias | a0.dataof | S) if shares else S, dt=dt or a0.dt,
                           dtprov=a0.dtprov if dt is None else E, constmask=const, maskof=E, dataof=E, Pc=pc, isbool=False if a0.isbool and dt else a0.isbool,
                           rng=a0.rng if (a0.kind == "plain" and not a0.dataof and dt is None) else (None, None),  # bounds of a plain array hold for every cell; a data view may expose unbounded hidden cells
                           maskalias=(malias if shares else E) if isinstance(mask, Arr) else (a0.maskalias if a0.kind == "masked" and shares else E))  # A33: copy=True copies the mask argument too
        if isinstance(a0, Lst) and a0.what == "arrs" and a0.L:
            el = self.part_elem(a0)
            if isinstance(mask, Arr):
                return replace(el, shape="stacked", alias=S, maskof=E, dataof=E, rng=(None, None), kind="masked", M=mask.M, layermask=False)
            return replace(el, shape="stacked", alias=S, maskof=E, dataof=E, rng=(None, None), layermask=el.kind == "masked" and len(el.M) > 1)
        if isinstance(a0, Lst) and a0.items is not None and a0.items and all(isinstance(x, Arr) for x in a0.items):
            r = a0.items[0]
            for x in a0.items[1:]:
                r = self.binop_arr(r, x, ast.Add(), e, fr)
            return replace(r, shape="stacked", alias=S)
        cov = mask.M if isinstance(mask, Arr) else E
        malias = (mask.maskof | frozenset(t for t in mask.alias if is_input_token(t))) if isinstance(mask, Arr) else E
        return Arr(kind="masked", alias=S, shape="same", dt=dt or IF_, dtprov=frozenset({"param"}) if dt else E, M=cov, constmask=not isinstance(mask, Arr), maskalias=malias)

    def call_reduce(self, e, A, fr):
        if len(A) < 2:
            self.unsupported("reduce with fewer than two arguments", e, fr)
        fn, seq = A[0], A[1]
        init = A[2] if len(A) > 2 else None
        if not (isinstance(seq, Lst) and seq.what in ("arrs", "masks") and seq.L):
            if isinstance(seq, Lst):
                return Scal()
            self.unsupported("reduce over %r" % (seq,), e, fr)
        el = self.part_elem(seq)
        self.res.reduces.append((e, fn, seq, init, self.fkey(fr)))
        if isinstance(fn, Other) and fn.tag == "lambda":
            step = lambda x, y: self.apply_lambda(fn.info, [x, y], fr)  # noqa: E731
        elif isinstance(fn, Other) and fn.tag == "global" and isinstance(fn.info, str):
            qn = fn.info
            step = lambda x, y: self.builtin(qn, e, [x, y], {}, fr)  # noqa: E731
        else:
            self.unsupported("reduce with %r" % (fn,), e, fr)
        first = init if isinstance(init, Arr) else el
        r = step(first, el)
        if not isinstance(r, Arr):
            self.unsupported("reduce step does not produce an array", e, fr)
        r2 = step(r, el)
        # every step makes a new boolean array and the fold starts from one of its own: the outcome shares no buffer with a mask
        fresh_fold = isinstance(init, Arr) and not any(is_input_token(t_) for t_ in init.alias | init.maskof) and r.freshmask and (not isinstance(r2, Arr) or r2.freshmask)
        if isinstance(r2, Arr):
            r = self.join(r, r2) if r2 != r else r
            r = replace(r, M=step(first, el).M)
        # A6: reduce over one element (or an empty sequence with an initial value) returns that object itself
        if init is not None:
            sole = init.alias if isinstance(init, Arr) else E
            cover = r.M
        else:
            sole = self.part_elem(replace(seq, part="first")).alias if seq.part == "all" else el.alias
            cover = r.M
        return replace(r, alias=r.alias | sole, M=cover, rng=(None, None), freshmask=fresh_fold)


def analyse_command(idx, decl, fold=None):
    it = ArrayInterp(idx, decl, fold=fold)
    return it.run()
