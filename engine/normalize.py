"""Normalisation before the shape-sensitive rules: private helpers are inlined into their callers.

A behaviour-preserving refactoring that extracts a helper (method, static method, module function, nested function) must
not change any verdict, so every rule sees function bodies with such helpers expanded in place.  Only *helpers* are
inlined — never the protocol methods the rules anchor on (execute, run, clean, parse, the grammar actions, ...).

Three splice forms, each only when it is exact:
  * `helper(args)` as a statement            -> the helper's body (no value-returning `return` except a discarded last one)
  * `x = helper(args)` / `return helper(args)` -> body + `x = e` / body with its own returns
  * a call nested in an expression            -> the helper's single return expression
Parameters are substituted by the argument expressions (a temporary is introduced when the helper rebinds a parameter);
the helper's locals are renamed to keep them apart from the caller's.
"""
import ast
import copy

NEVER = {
    "execute", "run", "clean", "validate_params", "result", "metadata", "from_source", "add_command", "to_string", "to_file", "parse", "main",
    "insure_fuzzy", "make_masked", "validate_array_shapes", "convert_eems2_commands", "flatten", "load_commands", "find_command_class",
    "get_commands", "accepts", "get_argument_value", "__init__", "__new__", "__str__", "__repr__",
}


def _is_protocol(name):
    return name in NEVER or name.startswith("t_") or name.startswith("p_") or (name.startswith("__") and name.endswith("__"))


class _Subst(ast.NodeTransformer):
    def __init__(self, mapping, rename):
        self.mapping = mapping  # param name -> expr AST
        self.rename = rename  # local name -> new name

    def visit_Name(self, node):
        if node.id in self.mapping and isinstance(node.ctx, ast.Load):
            return copy.deepcopy(self.mapping[node.id])
        if node.id in self.rename:
            return ast.copy_location(ast.Name(id=self.rename[node.id], ctx=node.ctx), node)
        return node

    def visit_ExceptHandler(self, node):
        self.generic_visit(node)
        if node.name and node.name in self.rename:
            node.name = self.rename[node.name]
        return node


def _stored_names(fn):
    out = set()
    for n in ast.walk(fn):
        if isinstance(n, ast.Name) and isinstance(n.ctx, (ast.Store, ast.Del)):
            out.add(n.id)
        elif isinstance(n, ast.ExceptHandler) and n.name:
            out.add(n.name)
        elif isinstance(n, (ast.Import, ast.ImportFrom)):
            for a in n.names:
                out.add((a.asname or a.name).split(".")[0])
    return out


def _has(fn_body, kinds):
    for s in fn_body:
        for n in ast.walk(s):
            if isinstance(n, kinds):
                return True
    return False


def _returns(body):
    """all Return nodes of a body, not descending into nested defs / lambdas"""
    out = []
    stack = list(body)
    while stack:
        n = stack.pop()
        if isinstance(n, (ast.FunctionDef, ast.AsyncFunctionDef, ast.ClassDef, ast.Lambda)):
            continue
        if isinstance(n, ast.Return):
            out.append(n)
        stack.extend(ast.iter_child_nodes(n))
    return out


def _strip_doc(body):
    if body and isinstance(body[0], ast.Expr) and isinstance(body[0].value, ast.Constant) and isinstance(body[0].value.value, str):
        return body[1:]
    return body


class Inliner(object):
    MAX_DEPTH = 3

    def __init__(self, idx):
        self.idx = idx
        self.memo = {}
        self.counter = 0
        self.inlined_calls = {}  # helper FuncInfo -> count of call sites inlined
        self.kept_calls = {}  # helper FuncInfo -> count of call sites left alone

    # ------------------------------------------------------------------ which callee
    def callee(self, fi, call):
        """the helper FuncInfo a call denotes, with the expression bound to its first (self/cls) parameter, or (None, None)"""
        f = call.func
        idx = self.idx
        cand = None
        recv = None
        if isinstance(f, ast.Name):
            g = fi
            while g is not None:
                if f.id in g.nested:
                    cand = g.nested[f.id]
                    break
                g = g.parent
            if cand is None:
                b = fi.module.bindings.get(f.id)
                if b and b[0] == "func":
                    cand = b[1]
        elif isinstance(f, ast.Attribute) and isinstance(f.value, ast.Name):
            cls = idx.enclosing_class(fi)
            top = fi
            while top.parent is not None:
                top = top.parent
            selfname = top.node_orig.args.args[0].arg if (top.cls is not None and top.kind != "staticmethod" and top.node_orig.args.args) else None
            if cls is not None and f.value.id == selfname:
                m = idx.find_method(cls, f.attr)
                if m is not None and m.module is fi.module:
                    # dynamic dispatch: only when nothing in the package overrides it
                    overridden = any(f.attr in c.methods and c.methods[f.attr] is not m for c in idx.subclasses(m.cls))
                    if not overridden:
                        cand = m
                        recv = f.value
            else:
                b = fi.module.bindings.get(f.value.id)
                if b and b[0] == "class" and f.attr in b[1].methods and b[1].methods[f.attr].kind == "staticmethod":
                    cand = b[1].methods[f.attr]
        if cand is None or cand.module is not fi.module:
            return None, None
        if _is_protocol(cand.name) or cand.kind == "property":
            return None, None
        private = cand.name.startswith("_") or cand.parent is not None
        if not private:
            # a public module-level function is a helper only if nothing outside its module uses it
            used_elsewhere = False
            for m in idx.modules.values():
                if m is cand.module:
                    continue
                for b in m.bindings.values():
                    if b[0] == "sym" and b[1] == cand.module.name and b[2] == cand.name:
                        used_elsewhere = True
            if used_elsewhere or cand.cls is not None:
                return None, None
        a = cand.node_orig.args
        if a.vararg or a.kwarg or a.kwonlyargs or a.posonlyargs:
            return None, None
        if any(isinstance(k, ast.keyword) and k.arg is None for k in call.keywords) or any(isinstance(x, ast.Starred) for x in call.args):
            return None, None
        for d in cand.node_orig.decorator_list:
            if not (isinstance(d, ast.Name) and d.id in ("staticmethod", "classmethod")):
                return None, None
        if _has(cand.node_orig.body, (ast.Yield, ast.YieldFrom, ast.FunctionDef, ast.AsyncFunctionDef, ast.ClassDef, ast.Global, ast.Nonlocal)):
            return None, None
        return cand, recv

    def bind(self, cand, recv, call):
        a = cand.node_orig.args
        params = [x.arg for x in a.args]
        mapping = {}
        if cand.cls is not None and cand.kind != "staticmethod":
            if not params:
                return None
            mapping[params[0]] = recv if recv is not None else ast.Name(id=params[0], ctx=ast.Load())
            params = params[1:]
        if len(call.args) > len(params):
            return None
        for p, v in zip(params, call.args):
            mapping[p] = v
        for k in call.keywords:
            if k.arg not in params or k.arg in mapping:
                return None
            mapping[k.arg] = k.value
        dflt = a.defaults
        for i, p in enumerate(params):
            if p not in mapping:
                j = i - (len(params) - len(dflt))
                if j < 0:
                    return None
                mapping[p] = dflt[j]
        return mapping

    # ------------------------------------------------------------------ body of a helper, specialised to one call
    def specialise(self, cand, mapping, lineno, stack):
        self.counter += 1
        tag = "__i%d" % self.counter
        body = copy.deepcopy(_strip_doc(self.body_of(cand, stack)))
        fn = ast.FunctionDef(name="_", args=cand.node_orig.args, body=body, decorator_list=[], returns=None)
        stored = _stored_names(fn)
        pre = []
        m2 = {}
        for p, v in mapping.items():
            if p in stored:
                tmp = p + tag
                pre.append(ast.Assign(targets=[ast.Name(id=tmp, ctx=ast.Store())], value=copy.deepcopy(v), lineno=lineno, col_offset=0))
                m2[p] = ast.Name(id=tmp, ctx=ast.Load())
            else:
                m2[p] = v
        rename = {n: n + tag for n in stored if n not in mapping}
        for p in mapping:
            if p in stored:
                rename[p] = p + tag
        sub = _Subst({k: v for k, v in m2.items() if k not in rename}, rename)
        new_body = [sub.visit(s) for s in body]
        return pre + new_body

    def body_of(self, cand, stack):
        """the helper's own body with its helpers already expanded"""
        if cand in stack or len(stack) >= self.MAX_DEPTH:
            return cand.node_orig.body
        return self.inline_function(cand, stack).body

    # ------------------------------------------------------------------ inlining one function
    def inline_function(self, fi, stack=()):
        if fi in self.memo:
            return self.memo[fi]
        stack = tuple(stack) + (fi,)
        node = copy.deepcopy(fi.node_orig)
        node.body = self.block(fi, node.body, stack)
        ast.fix_missing_locations(node)
        if len(stack) == 1:
            self.memo[fi] = node
        return node

    def note(self, cand, done):
        d = self.inlined_calls if done else self.kept_calls
        d[cand] = d.get(cand, 0) + 1

    def block(self, fi, stmts, stack):
        out = []
        for s in stmts:
            out.extend(self.stmt(fi, s, stack))
        return out

    def stmt(self, fi, s, stack):
        if isinstance(s, (ast.FunctionDef, ast.AsyncFunctionDef, ast.ClassDef)):
            return [s]
        # statement-level splices
        call = None
        form = None
        if isinstance(s, ast.Expr) and isinstance(s.value, ast.Call):
            call, form = s.value, "expr"
        elif isinstance(s, ast.Assign) and isinstance(s.value, ast.Call) and len(s.targets) == 1:
            call, form = s.value, "assign"
        elif isinstance(s, ast.Return) and isinstance(s.value, ast.Call):
            call, form = s.value, "return"
        if call is not None:
            cand, recv = self.callee(fi, call)
            if cand is not None and cand not in stack:
                mapping = self.bind(cand, recv, call)
                body0 = _strip_doc(cand.node_orig.body)
                rets = _returns(body0)
                last = body0[-1] if body0 else None
                tail = isinstance(last, ast.Return) and last.value is not None and len(rets) == 1
                single_expr = len(body0) == 1 and tail
                ok = False
                if mapping is not None and not single_expr:
                    if form == "expr":
                        ok = all(r.value is None for r in rets if r is not last) and (not rets or rets == [last] or all(r.value is None for r in rets))
                        ok = ok and all(r is last for r in rets if r.value is not None)
                        ok = ok and not any(r is not last for r in rets)  # early returns cannot be spliced into straight-line code
                    elif form == "assign":
                        ok = tail
                    elif form == "return":
                        ok = True
                if not ok and not single_expr:
                    self.note(cand, False)
                if ok:
                    args_inl = {k: self.expr(fi, v, stack) for k, v in mapping.items()}
                    body = self.specialise(cand, args_inl, getattr(s, "lineno", 1), stack)
                    self.note(cand, True)
                    if form == "expr":
                        if body and isinstance(body[-1], ast.Return):
                            lastv = body.pop()
                            if lastv.value is not None:
                                body.append(ast.Expr(value=lastv.value, lineno=getattr(lastv, "lineno", 1), col_offset=0))
                        return body or [ast.Pass(lineno=getattr(s, "lineno", 1), col_offset=0)]
                    if form == "assign":
                        lastv = body.pop()
                        body.append(ast.Assign(targets=s.targets, value=lastv.value, lineno=getattr(s, "lineno", 1), col_offset=0))
                        return body
                    return body
        # recurse into compound statements, and expression-level inlining elsewhere
        for field, value in list(ast.iter_fields(s)):
            if isinstance(value, list) and value and isinstance(value[0], ast.stmt):
                setattr(s, field, self.block(fi, value, stack))
            elif isinstance(value, list) and value and isinstance(value[0], ast.ExceptHandler):
                for h in value:
                    h.body = self.block(fi, h.body, stack)
            elif isinstance(value, ast.expr):
                setattr(s, field, self.expr(fi, value, stack))
            elif isinstance(value, list) and value and isinstance(value[0], ast.expr):
                setattr(s, field, [self.expr(fi, v, stack) for v in value])
            elif isinstance(value, list) and value and isinstance(value[0], ast.withitem):
                for w in value:
                    w.context_expr = self.expr(fi, w.context_expr, stack)
        return [s]

    def expr(self, fi, e, stack):
        inl = self

        class T(ast.NodeTransformer):
            def visit_Lambda(self, node):
                return node

            def visit_Call(self, node):
                self.generic_visit(node)
                cand, recv = inl.callee(fi, node)
                if cand is None or cand in stack:
                    if cand is not None:
                        inl.note(cand, False)
                    return node
                body0 = _strip_doc(cand.node_orig.body)
                if len(body0) == 1 and isinstance(body0[0], ast.Return) and body0[0].value is not None:
                    mapping = inl.bind(cand, recv, node)
                    if mapping is not None:
                        body = inl.specialise(cand, mapping, getattr(node, "lineno", 1), stack)
                        if len(body) == 1 and isinstance(body[0], ast.Return):
                            inl.note(cand, True)
                            return ast.copy_location(body[0].value, node)
                inl.note(cand, False)
                return node

        return T().visit(e)


def normalise(idx):
    """Replace every function body of the index by its helper-inlined form (the original stays in `node_orig`)."""
    for fi in idx.funcs:
        fi.node_orig = fi.node
        fi.absorbed = False
    inl = Inliner(idx)
    new = {}
    for fi in idx.funcs:
        try:
            new[fi] = inl.inline_function(fi)
        except RecursionError:
            new[fi] = fi.node_orig
    for fi, n in new.items():
        fi.node = n
    for cand, cnt in inl.inlined_calls.items():
        if cnt and not inl.kept_calls.get(cand):
            cand.absorbed = True
    idx.inlined_helpers = sorted("%s (%d site(s))" % (c.key, n) for c, n in inl.inlined_calls.items())
    return idx
