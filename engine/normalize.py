"""Normalisation before the shape-sensitive rules: private helpers are inlined into their callers.

A behaviour-preserving refactoring that extracts a helper (method, static method, module function, nested function) must
not change any verdict, so every rule sees function bodies with such helpers expanded in place.  Only *helpers* are
inlined — never the protocol methods the rules anchor on (execute, run, clean, parse, the grammar actions, ...).

Three splice forms, each only when it is exact:
  * `helper(args)` as a statement            -> the helper's body (no value-returning `return` except a discarded last one)
  * `x = helper(args)` / `return helper(args)` -> body + `x = e` / body with its own returns
  * a call nested in an expression            -> the helper's single return expression
Parameters are substituted by the argument expressions (a temporary is introduced when the helper rebinds a parameter);
the helper's locals are renamed to keep them apart from the caller's.
"""
import ast
import copy

NEVER = {
    "execute", "run", "clean", "validate_params", "result", "metadata", "from_source", "add_command", "to_string", "to_file", "parse", "main",
    "insure_fuzzy", "make_masked", "validate_array_shapes", "convert_eems2_commands", "flatten", "load_commands", "find_command_class",
    "get_commands", "accepts", "get_argument_value", "__init__", "__new__", "__str__", "__repr__",
}


def _is_protocol(name):
    return name in NEVER or name.startswith("t_") or name.startswith("p_") or (name.startswith("__") and name.endswith("__"))


class _Subst(ast.NodeTransformer):
    def __init__(self, mapping, rename):
        self.mapping = mapping  # param name -> expr AST
        self.rename = rename  # local name -> new name

    def visit_Name(self, node):
        if node.id in self.mapping and isinstance(node.ctx, ast.Load):
            return copy.deepcopy(self.mapping[node.id])
        if node.id in self.rename:
            return ast.copy_location(ast.Name(id=self.rename[node.id], ctx=node.ctx), node)
        return node

    def visit_ExceptHandler(self, node):
        self.generic_visit(node)
        if node.name and node.name in self.rename:
            node.name = self.rename[node.name]
        return node


def _stored_names(fn):
    out = set()
    for n in ast.walk(fn):
        if isinstance(n, ast.Name) and isinstance(n.ctx, (ast.Store, ast.Del)):
            out.add(n.id)
        elif isinstance(n, ast.ExceptHandler) and n.name:
            out.add(n.name)
        elif isinstance(n, (ast.Import, ast.ImportFrom)):
            for a in n.names:
                out.add((a.asname or a.name).split(".")[0])
    return out


def _has(fn_body, kinds):
    for s in fn_body:
        for n in ast.walk(s):
            if isinstance(n, kinds):
                return True
    return False


def _returns(body):
    """all Return nodes of a body, not descending into nested defs / lambdas"""
    out = []
    stack = list(body)
    while stack:
        n = stack.pop()
        if isinstance(n, (ast.FunctionDef, ast.AsyncFunctionDef, ast.ClassDef, ast.Lambda)):
            continue
        if isinstance(n, ast.Return):
            out.append(n)
        stack.extend(ast.iter_child_nodes(n))
    return out


def _strip_doc(body):
    if body and isinstance(body[0], ast.Expr) and isinstance(body[0].value, ast.Constant) and isinstance(body[0].value.value, str):
        return body[1:]
    return body


def _always_returns(stmts):
    """does every path through the statement list end in return/raise?"""
    for st in stmts:
        if isinstance(st, (ast.Return, ast.Raise)):
            return True
        if isinstance(st, ast.If) and st.orelse and _always_returns(st.body) and _always_returns(st.orelse):
            return True
        if isinstance(st, ast.Try) and not st.finalbody and all(_always_returns(h.body) for h in st.handlers) and (_always_returns(st.body) or (st.orelse and _always_returns(st.orelse))):
            return True
    return False


class _NoRestructure(Exception):
    pass


def _restructure(stmts, on_return):
    """Rewrite a guard-clause body (returns only at statement level of if/else chains) into single-exit form:
    `return e` becomes on_return(e) and the statements after a returning `if` move into its else branch."""
    out = []
    for i, st in enumerate(stmts):
        if isinstance(st, ast.Return):
            out.extend(on_return(st))
            return out
        if not _returns([st]):
            out.append(st)
            continue
        rest = stmts[i + 1:]
        if isinstance(st, ast.Try) and not st.finalbody and not _returns(st.body):
            # returns inside handlers / else: what follows the try runs only when no handler returned, i.e. it belongs to
            # the else clause (exceptions raised there are not caught by the handlers, exactly as before)
            falls = [h for h in st.handlers if not _always_returns(h.body)]
            if falls and rest and any(_returns(h.body) for h in st.handlers):
                raise _NoRestructure()
            if any(_returns(h.body) and not _always_returns(h.body) for h in st.handlers):
                raise _NoRestructure()
            for h in st.handlers:
                h.body = _restructure(h.body, on_return) or [ast.Pass(lineno=getattr(st, "lineno", 1), col_offset=0)]
            if falls:
                st.orelse = _restructure(list(st.orelse), on_return)
                out.append(st)
                out.extend(_restructure(rest, on_return))
            else:
                st.orelse = _restructure(list(st.orelse) + rest, on_return)
                out.append(st)
            return out
        if not isinstance(st, ast.If):
            raise _NoRestructure()
        body_ret = _always_returns(st.body)
        else_ret = bool(st.orelse) and _always_returns(st.orelse)
        if body_ret and else_ret:
            st.body = _restructure(st.body, on_return)
            st.orelse = _restructure(st.orelse, on_return)
            out.append(st)
            return out
        if body_ret and not _returns(st.orelse):
            st.body = _restructure(st.body, on_return)
            st.orelse = _restructure(list(st.orelse) + rest, on_return)
            if not st.orelse:
                st.orelse = []
            if not st.body:
                st.body = [ast.Pass(lineno=getattr(st, "lineno", 1), col_offset=0)]
            out.append(st)
            return out
        if else_ret and not _returns(st.body):
            st.orelse = _restructure(st.orelse, on_return) or [ast.Pass(lineno=getattr(st, "lineno", 1), col_offset=0)]
            st.body = _restructure(list(st.body) + rest, on_return) or [ast.Pass(lineno=getattr(st, "lineno", 1), col_offset=0)]
            out.append(st)
            return out
        raise _NoRestructure()
    return out


def _substitute_straight_line(stmts):
    """`t = e1; t = f(t); yield g(t)` -> `yield g(f(e1))`: plain assignments to names in front of the last statement are
    substituted into it (each assigned expression is used as many times as the name was read; all are pure reads here)"""
    if len(stmts) < 2:
        return stmts
    env = {}

    class S(ast.NodeTransformer):
        def visit_Name(self, n):
            if isinstance(n.ctx, ast.Load) and n.id in env:
                return copy.deepcopy(env[n.id])
            return n

    for st in stmts[:-1]:
        if not (isinstance(st, ast.Assign) and len(st.targets) == 1 and isinstance(st.targets[0], ast.Name)):
            return stmts
        if any(isinstance(x, (ast.Call, ast.Yield, ast.Lambda, ast.ListComp, ast.GeneratorExp, ast.DictComp, ast.SetComp)) for x in ast.walk(st.value)):
            # a computing expression is substituted only if it will be read exactly once
            reads = sum(1 for later in stmts[stmts.index(st) + 1:] for x in ast.walk(later) if isinstance(x, ast.Name) and x.id == st.targets[0].id and isinstance(x.ctx, ast.Load))
            if reads != 1:
                return stmts
        env[st.targets[0].id] = S().visit(copy.deepcopy(st.value))
    last = S().visit(copy.deepcopy(stmts[-1]))
    return [ast.fix_missing_locations(last)]


class _ReturnToRaise(ast.NodeTransformer):
    def visit_FunctionDef(self, node):
        return node

    def visit_Lambda(self, node):
        return node

    def visit_Return(self, node):
        return ast.copy_location(ast.Raise(exc=node.value, cause=None), node)


class _Fold(ast.NodeTransformer):
    """Folds what parameter substitution made constant: `None is None`, `<literal> is not None`, `not True`, `True and x`,
    `if False: ...`, `a if True else b` (a helper with a defaulted parameter, specialised to one call)."""

    @staticmethod
    def _lit(n):
        """('none',) / ('notnone',) / ('bool', v) for expressions whose None-ness / truth is known, else None"""
        if isinstance(n, ast.Constant):
            if n.value is None:
                return ("none",)
            if isinstance(n.value, bool):
                return ("bool", n.value)
            return ("notnone",)
        if isinstance(n, (ast.List, ast.Tuple, ast.Dict, ast.Set, ast.ListComp, ast.DictComp, ast.SetComp, ast.GeneratorExp, ast.Lambda, ast.JoinedStr)):
            return ("notnone",)
        return None

    def visit_FunctionDef(self, node):
        return node

    def visit_Lambda(self, node):
        return node

    def visit_Compare(self, node):
        self.generic_visit(node)
        if len(node.ops) == 1 and isinstance(node.ops[0], (ast.Is, ast.IsNot)):
            a, b = self._lit(node.left), self._lit(node.comparators[0])
            if a and b and a[0] in ("none", "notnone") and b[0] == "none":
                val = (a[0] == "none") == isinstance(node.ops[0], ast.Is)
                return ast.copy_location(ast.Constant(value=val), node)
            if a and b and a[0] == "none" and b[0] == "notnone":
                return ast.copy_location(ast.Constant(value=isinstance(node.ops[0], ast.IsNot)), node)
        return node

    def visit_UnaryOp(self, node):
        self.generic_visit(node)
        if isinstance(node.op, ast.Not) and isinstance(node.operand, ast.Constant) and isinstance(node.operand.value, bool):
            return ast.copy_location(ast.Constant(value=not node.operand.value), node)
        return node

    def visit_BoolOp(self, node):
        self.generic_visit(node)
        vals = list(node.values)
        is_and = isinstance(node.op, ast.And)
        out = []
        for v in vals:
            if isinstance(v, ast.Constant) and isinstance(v.value, bool):
                if v.value == is_and:
                    continue  # neutral element
                out.append(v)  # absorbing element: nothing after it is evaluated
                break
            out.append(v)
        if not out:
            return ast.copy_location(ast.Constant(value=is_and), node)
        if len(out) == 1:
            return out[0]
        if isinstance(out[0], ast.Constant) and isinstance(out[0].value, bool):
            return out[0]
        node.values = out
        return node

    def visit_Call(self, node):
        self.generic_visit(node)
        new_kw = []
        for k in node.keywords:
            if k.arg is None and isinstance(k.value, ast.Dict) and all(isinstance(x, ast.Constant) and isinstance(x.value, str) for x in k.value.keys):
                new_kw.extend(ast.keyword(arg=x.value, value=v) for x, v in zip(k.value.keys, k.value.values))
            else:
                new_kw.append(k)
        node.keywords = new_kw
        return node

    def visit_IfExp(self, node):
        self.generic_visit(node)
        if isinstance(node.test, ast.Constant) and isinstance(node.test.value, bool):
            return node.body if node.test.value else node.orelse
        return node

    def visit_If(self, node):
        self.generic_visit(node)
        if isinstance(node.test, ast.Constant) and isinstance(node.test.value, bool):
            taken = node.body if node.test.value else node.orelse
            return taken or [ast.copy_location(ast.Pass(), node)]
        return node


def fold_block(stmts):
    out = []
    f = _Fold()
    for st in stmts:
        r = f.visit(st)
        if isinstance(r, list):
            out.extend(r)
        elif r is not None:
            out.append(r)
    # drop `pass` statements that folding left between other statements
    if len(out) > 1:
        out = [st for st in out if not isinstance(st, ast.Pass)] or [out[0]]
    return out


class Inliner(object):
    MAX_DEPTH = 3

    def __init__(self, idx):
        self.idx = idx
        self.memo = {}
        self.counter = 0
        self.aliases = []
        self.inlined_calls = {}  # helper FuncInfo -> count of call sites inlined
        self.kept_calls = {}  # helper FuncInfo -> count of call sites left alone

    # ------------------------------------------------------------------ which callee
    def callee(self, fi, call, kind="plain"):
        """the helper FuncInfo a call denotes, with the expression bound to its first (self/cls) parameter, or (None, None).
        kind: 'plain' (no yield), 'gen' (a generator function), 'cm' (a @contextmanager generator function)"""
        f = call.func
        idx = self.idx
        cand = None
        recv = None
        if isinstance(f, ast.Name):
            g = fi
            while g is not None:
                if f.id in g.nested:
                    cand = g.nested[f.id]
                    break
                g = g.parent
            if cand is None:
                r = idx.resolve(fi.module, f, fi)
                if r and r[0] == "func":
                    cand = r[1]
        if isinstance(f, ast.Name) and cand is None:
            li = local_instance(idx, fi, f.id)
            if li is not None and "__call__" in li[0].methods:
                cand, recv = li[0].methods["__call__"], f
        if cand is None and isinstance(f, ast.Attribute) and isinstance(f.value, ast.Name):
            li = local_instance(idx, fi, f.value.id)
            if li is not None and f.attr in li[0].methods and (not f.attr.startswith("__") or f.attr in ("__enter__", "__exit__", "__call__")):
                cand, recv = li[0].methods[f.attr], f.value
        if cand is not None:
            pass
        elif isinstance(f, ast.Attribute) and isinstance(f.value, ast.Name):
            cls = idx.enclosing_class(fi)
            top = fi
            while top.parent is not None:
                top = top.parent
            selfname = top.node_prep.args.args[0].arg if (top.cls is not None and top.kind != "staticmethod" and top.node_prep.args.args) else None
            if cls is not None and f.value.id == selfname:
                m = idx.find_method(cls, f.attr)
                if m is not None:
                    # dynamic dispatch: only when nothing in the package overrides it
                    overridden = any(f.attr in c.methods and c.methods[f.attr] is not m for c in idx.subclasses(m.cls))
                    if not overridden:
                        cand = m
                        recv = f.value
            else:
                r = idx.resolve(fi.module, f, fi)
                if r and r[0] == "func":
                    cand = r[1]
                elif r and r[0] == "method" and r[2].kind == "staticmethod":
                    cand = r[2]
        if cand is None:
            return None, None
        via_instance = recv is not None and cand.cls is not None and simple_class_fields(idx, cand.cls) is not None and idx.enclosing_class(fi) is not cand.cls
        if (_is_protocol(cand.name) and not (via_instance and cand.name in ("__call__", "__enter__", "__exit__")) and not getattr(cand, "is_unwrapped_original", False)) or cand.kind == "property":
            return None, None
        if cand.module is not fi.module and cand.local_bindings:
            return None, None
        a = cand.node_prep.args
        if a.vararg or a.kwonlyargs or a.posonlyargs:
            return None, None
        dstar = [k for k in call.keywords if k.arg is None]
        if any(isinstance(x, ast.Starred) for x in call.args):
            return None, None
        # `**mapping` is accepted only as the whole of a `**kwargs` parameter (forwarding), nothing else
        if dstar:
            if not (a.kwarg is not None and len(dstar) == 1 and len(call.keywords) == 1):
                return None, None
        is_cm = False
        for d in cand.node_prep.decorator_list:
            if isinstance(d, ast.Name) and d.id in ("staticmethod", "classmethod"):
                continue
            q = None
            try:
                q = idx.qualname(cand.module, d, cand)
            except Exception:
                q = None
            if q == "contextlib.contextmanager":
                is_cm = True
                continue
            return None, None
        if _has(cand.node_prep.body, (ast.YieldFrom, ast.FunctionDef, ast.AsyncFunctionDef, ast.ClassDef, ast.Global, ast.Nonlocal)):
            return None, None
        is_gen = _has(cand.node_prep.body, (ast.Yield,))
        if kind == "plain" and (is_gen or is_cm):
            return None, None
        if kind == "gen" and (not is_gen or is_cm):
            return None, None
        if kind == "cm" and not (is_gen and is_cm):
            return None, None
        return cand, recv

    def bind(self, cand, recv, call):
        a = cand.node_prep.args
        params = [x.arg for x in a.args]
        mapping = {}
        if cand.cls is not None and cand.kind != "staticmethod":
            if not params:
                return None
            mapping[params[0]] = recv if recv is not None else ast.Name(id=params[0], ctx=ast.Load())
            params = params[1:]
        if len(call.args) > len(params):
            return None
        for p, v in zip(params, call.args):
            mapping[p] = v
        for k in call.keywords:
            if k.arg is None:
                if a.kwarg is None:
                    return None
                mapping[a.kwarg.arg] = k.value
                continue
            if k.arg not in params and a.kwarg is not None and k.arg not in mapping:
                extra = mapping.setdefault(a.kwarg.arg, ast.Dict(keys=[], values=[]))
                if not isinstance(extra, ast.Dict):
                    return None
                extra.keys.append(ast.Constant(value=k.arg))
                extra.values.append(k.value)
                continue
            if k.arg not in params or k.arg in mapping:
                return None
            mapping[k.arg] = k.value
        if a.kwarg is not None and a.kwarg.arg not in mapping:
            mapping[a.kwarg.arg] = ast.Dict(keys=[], values=[])
        dflt = a.defaults
        for i, p in enumerate(params):
            if p not in mapping:
                j = i - (len(params) - len(dflt))
                if j < 0:
                    return None
                mapping[p] = dflt[j]
        return mapping

    # ------------------------------------------------------------------ body of a helper, specialised to one call
    def specialise(self, fi, cand, mapping, lineno, stack):
        self.counter += 1
        tag = "__i%d" % self.counter
        body = copy.deepcopy(_strip_doc(self.body_of(cand, stack)))
        fn = ast.FunctionDef(name="_", args=cand.node_prep.args, body=body, decorator_list=[], returns=None)
        stored = _stored_names(fn)
        pre = []
        m2 = {}
        def complex_arg(v):
            return any(isinstance(x, (ast.Call, ast.ListComp, ast.SetComp, ast.DictComp, ast.GeneratorExp, ast.Lambda, ast.Yield, ast.Await, ast.NamedExpr)) for x in ast.walk(v))

        def use_profile(pname):
            """(number of reads of the parameter, whether any read is evaluated conditionally or repeatedly)"""
            count = [0]
            nested = [False]

            def visit(n, inside):
                if isinstance(n, ast.Name) and n.id == pname and isinstance(n.ctx, ast.Load):
                    count[0] += 1
                    if inside:
                        nested[0] = True
                    return
                here = inside or isinstance(n, (ast.For, ast.While, ast.If, ast.Try, ast.ListComp, ast.SetComp, ast.DictComp, ast.GeneratorExp, ast.Lambda, ast.IfExp, ast.BoolOp, ast.With))
                for c in ast.iter_child_nodes(n):
                    visit(c, here)

            for st in body:
                visit(st, False)
            return count[0], nested[0]

        for p, v in mapping.items():
            needs_tmp = p in stored
            if not needs_tmp and complex_arg(v):
                cnt, nest = use_profile(p)
                # an argument that computes something is evaluated exactly once, where the call stood
                needs_tmp = cnt != 1 or nest
            if needs_tmp:
                tmp = p + tag
                asg = ast.Assign(targets=[ast.Name(id=tmp, ctx=ast.Store())], value=copy.deepcopy(v), lineno=lineno, col_offset=0)
                asg._pre = True  # an argument evaluated at the call: still to be normalised in the caller's context
                pre.append(asg)
                m2[p] = ast.Name(id=tmp, ctx=ast.Load())
            else:
                m2[p] = v
        imported = set()
        for st in body:
            for n_ in ast.walk(st):
                if isinstance(n_, (ast.Import, ast.ImportFrom)):
                    for a_ in n_.names:
                        imported.add((a_.asname or a_.name).split(".")[0])
        rename = {n: n + tag for n in stored if n not in mapping and n not in imported}
        if cand.module is not fi.module:
            rename.update(self.harmonise(fi, cand, body, stored, set(mapping)))
        for p in mapping:
            if p in stored:
                rename[p] = p + tag
        sub = _Subst({k: v for k, v in m2.items() if k not in rename}, rename)
        new_body = [sub.visit(s) for s in body]
        return pre + fold_block(new_body)

    def harmonise(self, fi, cand, body, stored, params):
        """A helper of another module is expanded in the caller's module: every global name its body reads must denote
        the same thing there.  Names the caller's module does not bind are bound as if imported; names it binds
        differently are given a fresh alias."""
        idx = self.idx
        cm, hm = fi.module, cand.module
        out = {}
        free = set()
        for st in body:
            for n in ast.walk(st):
                if isinstance(n, ast.Name) and isinstance(n.ctx, ast.Load) and n.id not in stored and n.id not in params:
                    free.add(n.id)
        for g in sorted(free):
            hb = hm.bindings.get(g)
            if hb is None:
                continue  # builtin or unknown in both
            as_import = hb if hb[0] in ("mod", "sym") else ("sym", hm.name, g)
            cb = cm.bindings.get(g)
            shadow = False
            f = fi
            while f is not None:
                if g in f.local_bindings or g in f.nested:
                    shadow = True
                f = f.parent
            if cb is None and not shadow:
                cm.bindings[g] = as_import
                continue
            if not shadow and idx._chase(cb) == idx._chase(hb):
                continue
            alias = "%s__m%d" % (g, len(self.aliases))
            self.aliases.append(alias)
            cm.bindings[alias] = as_import
            out[g] = alias
        return out

    def body_of(self, cand, stack):
        """the helper's own body with its helpers already expanded"""
        if cand in stack or len(stack) >= self.MAX_DEPTH:
            return cand.node_prep.body
        return self.inline_function(cand, stack).body

    # ------------------------------------------------------------------ inlining one function
    def inline_function(self, fi, stack=()):
        if fi in self.memo:
            return self.memo[fi]
        stack = tuple(stack) + (fi,)
        node = copy.deepcopy(fi.node_prep)
        node.body = self.block(fi, node.body, stack, top=True)
        ast.fix_missing_locations(node)
        if len(stack) == 1:
            self.memo[fi] = node
        return node

    def note(self, cand, done):
        d = self.inlined_calls if done else self.kept_calls
        d[cand] = d.get(cand, 0) + 1

    def block(self, fi, stmts, stack, top=False):
        out = []
        for i, s in enumerate(stmts):
            out.extend(self.stmt(fi, s, stack, is_last=top and i == len(stmts) - 1))
        return out

    def stmt(self, fi, s, stack, is_last=False):
        if isinstance(s, (ast.FunctionDef, ast.AsyncFunctionDef, ast.ClassDef)):
            return [s]
        if isinstance(s, ast.For):
            fused = self.gen_fused(fi, s, stack)
            if fused is not None:
                return self.block(fi, fused, stack)
        if isinstance(s, ast.With):
            w = self.cm_inlined(fi, s, stack)
            if w is not None:
                return self.block(fi, w, stack)
        # statement-level splices
        call = None
        form = None
        if isinstance(s, ast.Expr) and isinstance(s.value, ast.Call):
            call, form = s.value, "expr"
        elif isinstance(s, ast.Assign) and isinstance(s.value, ast.Call) and len(s.targets) == 1:
            call, form = s.value, "assign"
        elif isinstance(s, ast.Return) and isinstance(s.value, ast.Call):
            call, form = s.value, "return"
        elif isinstance(s, ast.Raise) and isinstance(s.exc, ast.Call) and s.cause is None:
            call, form = s.exc, "raise"
        if call is not None:
            cand, recv = self.callee(fi, call)
            if cand is not None and cand not in stack:
                mapping = self.bind(cand, recv, call)
                body0 = _strip_doc(cand.node_prep.body)
                rets = _returns(body0)
                last = body0[-1] if body0 else None
                tail = isinstance(last, ast.Return) and last.value is not None and len(rets) == 1
                single_expr = len(body0) == 1 and tail
                early = [r for r in rets if r is not last]
                mode = None
                if mapping is not None and not single_expr:
                    if form == "return":
                        mode = "verbatim"
                    elif form == "raise":
                        if rets and all(r.value is not None for r in rets) and _always_returns(body0):
                            mode = "raise"
                    elif form == "expr":
                        if not early:
                            mode = "straight"
                        elif is_last and all(r.value is None for r in early):
                            mode = "straight"  # the caller ends here: a bare return in the helper ends the caller too
                        else:
                            mode = "restructure"
                    elif form == "assign":
                        if tail:
                            mode = "straight"
                        elif rets and all(r.value is not None for r in rets) and _always_returns(body0):
                            mode = "restructure"
                if mode is None and not single_expr:
                    self.note(cand, False)
                if mode is not None:
                    ln = getattr(s, "lineno", 1)
                    args_inl = {k: self.expr(fi, v, stack) for k, v in mapping.items()}
                    body = self.specialise(fi, cand, args_inl, ln, stack)
                    done = None
                    if mode == "verbatim":
                        done = body
                    elif mode == "raise":
                        done = [_ReturnToRaise().visit(b) for b in body]
                    elif mode == "straight":
                        if form == "expr":
                            if body and isinstance(body[-1], ast.Return):
                                lastv = body.pop()
                                if lastv.value is not None:
                                    body.append(ast.Expr(value=lastv.value, lineno=getattr(lastv, "lineno", 1), col_offset=0))
                            done = body or [ast.Pass(lineno=ln, col_offset=0)]
                        else:
                            lastv = body.pop()
                            body.append(ast.Assign(targets=s.targets, value=lastv.value, lineno=ln, col_offset=0))
                            done = body
                    else:
                        if form == "expr":
                            def on_return(r):
                                return [ast.Expr(value=r.value, lineno=getattr(r, "lineno", ln), col_offset=0)] if r.value is not None else []
                        else:
                            def on_return(r):
                                return [ast.Assign(targets=copy.deepcopy(s.targets), value=r.value, lineno=getattr(r, "lineno", ln), col_offset=0)]
                        try:
                            pre_n = len([b for b in body if getattr(b, "_pre", False)])
                            done = _restructure(body, on_return) or [ast.Pass(lineno=ln, col_offset=0)]
                        except _NoRestructure:
                            done = None
                    if done is not None:
                        self.note(cand, True)
                        out_ = []
                        for st_ in done:
                            if getattr(st_, "_pre", False):
                                st_._pre = False
                                out_.extend(self.stmt(fi, st_, stack))
                            else:
                                out_.append(st_)
                        return out_
                    self.note(cand, False)
        # a multi-statement helper called inside a simple statement: its body is hoisted in front, the call becomes a temporary
        pre = []
        if isinstance(s, (ast.Expr, ast.Assign, ast.AugAssign, ast.Return, ast.Raise, ast.If, ast.Assert, ast.For)):
            for field in ("value", "exc", "test") if not isinstance(s, ast.For) else ("iter",):
                v = getattr(s, field, None)
                if isinstance(v, ast.expr):
                    setattr(s, field, self.hoist(fi, v, stack, pre))
        if pre:
            return pre + self.stmt(fi, s, stack)
        # recurse into compound statements, and expression-level inlining elsewhere
        for field, value in list(ast.iter_fields(s)):
            if isinstance(value, list) and value and isinstance(value[0], ast.stmt):
                setattr(s, field, self.block(fi, value, stack))
            elif isinstance(value, list) and value and isinstance(value[0], ast.ExceptHandler):
                for h in value:
                    h.body = self.block(fi, h.body, stack)
            elif isinstance(value, ast.expr):
                setattr(s, field, self.expr(fi, value, stack))
            elif isinstance(value, list) and value and isinstance(value[0], ast.expr):
                setattr(s, field, [self.expr(fi, v, stack) for v in value])
            elif isinstance(value, list) and value and isinstance(value[0], ast.withitem):
                for w in value:
                    w.context_expr = self.expr(fi, w.context_expr, stack)
        return [s]

    def hoist(self, fi, e, stack, pre):
        inl = self

        def needs_statements(comp):
            """does the comprehension call a helper that only a statement-level splice can expand?"""
            for c in ast.walk(comp):
                if isinstance(c, ast.Call):
                    cand, _ = inl.callee(fi, c)
                    if cand is not None and cand not in stack:
                        b0 = _strip_doc(cand.node_prep.body)
                        if not (len(b0) == 1 and isinstance(b0[0], ast.Return)):
                            return True
            return False

        def walk(n):
            if isinstance(n, (ast.ListComp, ast.SetComp, ast.DictComp)) and needs_statements(n):
                # the comprehension becomes an explicit loop in front of the statement, so that the helper can be spliced in
                inl.counter += 1
                tmp = "__c%d" % inl.counter
                ln = getattr(n, "lineno", 1)
                if isinstance(n, ast.DictComp):
                    init = ast.Dict(keys=[], values=[])
                    core = ast.Assign(targets=[ast.Subscript(value=ast.Name(id=tmp, ctx=ast.Load()), slice=n.key, ctx=ast.Store())], value=n.value, lineno=ln, col_offset=0)
                elif isinstance(n, ast.ListComp):
                    init = ast.List(elts=[], ctx=ast.Load())
                    core = ast.Expr(value=ast.Call(func=ast.Attribute(value=ast.Name(id=tmp, ctx=ast.Load()), attr="append", ctx=ast.Load()), args=[n.elt], keywords=[]), lineno=ln, col_offset=0)
                else:
                    init = ast.Call(func=ast.Name(id="set", ctx=ast.Load()), args=[], keywords=[])
                    core = ast.Expr(value=ast.Call(func=ast.Attribute(value=ast.Name(id=tmp, ctx=ast.Load()), attr="add", ctx=ast.Load()), args=[n.elt], keywords=[]), lineno=ln, col_offset=0)
                body = [core]
                for g in reversed(n.generators):
                    for cond in reversed(g.ifs):
                        body = [ast.If(test=cond, body=body, orelse=[], lineno=ln, col_offset=0)]
                    body = [ast.For(target=g.target, iter=g.iter, body=body, orelse=[], lineno=ln, col_offset=0)]
                loop = [ast.Assign(targets=[ast.Name(id=tmp, ctx=ast.Store())], value=init, lineno=ln, col_offset=0)] + body
                for st_ in loop:
                    ast.fix_missing_locations(st_)
                pre.extend(inl.block(fi, loop, stack))
                return ast.copy_location(ast.Name(id=tmp, ctx=ast.Load()), n)
            if isinstance(n, (ast.Lambda, ast.GeneratorExp, ast.ListComp, ast.SetComp, ast.DictComp)):
                return n
            if isinstance(n, ast.IfExp):
                n.test = walk(n.test)
                return n
            if isinstance(n, ast.BoolOp):
                n.values[0] = walk(n.values[0])
                return n
            if isinstance(n, ast.Call) and n.args and isinstance(n.args[0], ast.Call):
                fq = n.func.id if isinstance(n.func, ast.Name) else (n.func.attr if isinstance(n.func, ast.Attribute) else None)
                if fq in ("list", "tuple", "sorted", "sum", "dict", "set", "frozenset", "any", "all", "min", "max", "join", "extend", "update", "writerows", "writelines", "enumerate", "zip", "reversed") or (fq == "next" and len(n.args) == 2):
                    n.args[0]._whole_consumer = fq != "next" or True
            for field, value in list(ast.iter_fields(n)):
                if isinstance(value, ast.expr):
                    setattr(n, field, walk(value))
                elif isinstance(value, list):
                    setattr(n, field, [walk(x) if isinstance(x, ast.expr) else (setattr(x, "value", walk(x.value)) or x) if isinstance(x, ast.keyword) else x for x in value])
            if isinstance(n, ast.Call) and isinstance(n.func, ast.Name) and n.func.id == "next" and len(n.args) == 2 and isinstance(n.args[0], ast.Call) and isinstance(n.args[0].func, ast.Name) and n.args[0].func.id == "iter" and n.args[0].args and isinstance(n.args[0].args[0], ast.Name) and n.args[0].args[0].id.startswith("__g"):
                n.args[0] = n.args[0].args[0]
            if isinstance(n, ast.Call) and isinstance(n.func, ast.Name) and n.func.id == "next" and len(n.args) == 2 and isinstance(n.args[0], ast.Name) and n.args[0].id.startswith("__g"):
                # next(<materialised generator>, default): its first item, or the default
                lst = n.args[0]
                return ast.copy_location(ast.IfExp(test=ast.Name(id=lst.id, ctx=ast.Load()), body=ast.Subscript(value=ast.Name(id=lst.id, ctx=ast.Load()), slice=ast.Constant(value=0), ctx=ast.Load()), orelse=n.args[1]), n)
            if isinstance(n, ast.Call):
                if inl.gen_as_expression(fi, copy.deepcopy(n), stack) is None:
                    m = inl.gen_materialised(fi, n, stack, pre)
                    if m is not None:
                        # a generator object is consumed step by step unless it goes straight into something that
                        # exhausts it: everywhere else the collected items are wrapped in iter(), which keeps that meaning
                        if getattr(n, "_whole_consumer", False):
                            return m
                        return ast.copy_location(ast.Call(func=ast.Name(id="iter", ctx=ast.Load()), args=[m], keywords=[]), n)
                cand, recv = inl.callee(fi, n)
                if cand is None or cand in stack:
                    return n
                body0 = _strip_doc(cand.node_prep.body)
                rets = _returns(body0)
                last = body0[-1] if body0 else None
                if rets and all(r.value is not None for r in rets) and _always_returns(body0):
                    mapping = inl.bind(cand, recv, n)
                    if mapping is None:
                        return n
                    ln = getattr(n, "lineno", 1)
                    body = inl.specialise(fi, cand, mapping, ln, stack)
                    if len(body) == 1 and isinstance(body[0], ast.Return):
                        inl.note(cand, True)
                        return ast.copy_location(body[0].value, n)
                    inl.counter += 1
                    tmp = "__r%d" % inl.counter

                    def on_return(r):
                        return [ast.Assign(targets=[ast.Name(id=tmp, ctx=ast.Store())], value=r.value, lineno=getattr(r, "lineno", ln), col_offset=0)]

                    try:
                        body = _restructure(body, on_return)
                    except _NoRestructure:
                        inl.note(cand, False)
                        return n
                    pre.extend(body)
                    inl.note(cand, True)
                    return ast.copy_location(ast.Name(id=tmp, ctx=ast.Load()), n)
            return n

        return walk(e)

    # ------------------------------------------------------------------ generators
    def gen_as_expression(self, fi, call, stack):
        """`g(args)` where g is `for x in IT: [if c:] yield e` -> the generator expression `(e for x in IT if c)`"""
        cand, recv = self.callee(fi, call, kind="gen")
        if cand is None or cand in stack:
            return None
        body0 = _strip_doc(cand.node_prep.body)
        if not (len(body0) == 1 and isinstance(body0[0], ast.For) and not body0[0].orelse):
            return None
        lp = body0[0]
        if sum(1 for x in ast.walk(lp) if isinstance(x, ast.Yield)) != 1:
            return None
        mapping = self.bind(cand, recv, call)
        if mapping is None:
            return None
        body = self.specialise(fi, cand, mapping, getattr(call, "lineno", 1), stack)
        pre = body[:-1]
        if pre or not isinstance(body[-1], ast.For):
            return None  # a parameter had to be copied to a temporary: not an expression any more
        lp = body[-1]
        inner = lp.body
        conds = []
        while len(inner) == 1 and isinstance(inner[0], ast.If) and not inner[0].orelse:
            conds.append(inner[0].test)
            inner = inner[0].body
        inner = _substitute_straight_line(inner)
        if not (len(inner) == 1 and isinstance(inner[0], ast.Expr) and isinstance(inner[0].value, ast.Yield)):
            return None
        self.note(cand, True)
        g = ast.GeneratorExp(elt=inner[0].value.value, generators=[ast.comprehension(target=lp.target, iter=lp.iter, ifs=conds, is_async=0)])
        return ast.fix_missing_locations(ast.copy_location(g, call))

    def gen_materialised(self, fi, call, stack, pre):
        """any other use of a generator call: its items are collected in a fresh list in front of the statement"""
        cand, recv = self.callee(fi, call, kind="gen")
        if cand is None or cand in stack:
            return None
        mapping = self.bind(cand, recv, call)
        if mapping is None:
            return None
        ln = getattr(call, "lineno", 1)
        body = self.specialise(fi, cand, mapping, ln, stack)
        self.counter += 1
        tmp = "__g%d" % self.counter
        try:
            body = _restructure(body, lambda r: []) if _returns(body) else body
        except _NoRestructure:
            self.note(cand, False)
            return None

        class Y(ast.NodeTransformer):
            def visit_FunctionDef(self, n):
                return n

            def visit_Lambda(self, n):
                return n

            def visit_Expr(self, n):
                if isinstance(n.value, ast.Yield):
                    v = n.value.value if n.value.value is not None else ast.Constant(value=None)
                    c = ast.Call(func=ast.Attribute(value=ast.Name(id=tmp, ctx=ast.Load()), attr="append", ctx=ast.Load()), args=[v], keywords=[])
                    return ast.copy_location(ast.Expr(value=c), n)
                return n

        body = [Y().visit(b) for b in body]
        if any(isinstance(x, ast.Yield) for b in body for x in ast.walk(b)):
            self.note(cand, False)
            return None  # a yield used as an expression
        pre.append(ast.Assign(targets=[ast.Name(id=tmp, ctx=ast.Store())], value=ast.List(elts=[], ctx=ast.Load()), lineno=ln, col_offset=0))
        pre.extend(body)
        self.note(cand, True)
        return ast.copy_location(ast.Name(id=tmp, ctx=ast.Load()), call)

    def gen_fused(self, fi, loop, stack):
        """`for T in g(args): BODY` -> g's body with every `yield e` replaced by `T = e; BODY` (no break/continue in BODY,
        no return in g; each yield is the last statement of its block, so resuming after it does nothing more in that block)"""
        call = loop.iter
        if not isinstance(call, ast.Call) or loop.orelse:
            return None
        cand, recv = self.callee(fi, call, kind="gen")
        if cand is None or cand in stack:
            return None
        if any(isinstance(n, (ast.Break, ast.Continue)) for b in loop.body for n in ast.walk(b)):
            return None
        mapping = self.bind(cand, recv, call)
        if mapping is None:
            return None
        body = self.specialise(fi, cand, mapping, getattr(loop, "lineno", 1), stack)
        if _returns(body):
            return None
        ok = [True]
        n_y = [0]

        def rewrite(stmts):
            out = []
            for i, st in enumerate(stmts):
                if isinstance(st, ast.Expr) and isinstance(st.value, ast.Yield):
                    n_y[0] += 1
                    v = st.value.value if st.value.value is not None else ast.Constant(value=None)
                    out.append(ast.Assign(targets=[copy.deepcopy(loop.target)], value=v, lineno=getattr(st, "lineno", 1), col_offset=0))
                    out.extend(copy.deepcopy(loop.body) if n_y[0] > 1 else loop.body)
                    continue
                for f_ in ("body", "orelse", "finalbody"):
                    v = getattr(st, f_, None)
                    if isinstance(v, list) and v and isinstance(v[0], ast.stmt):
                        setattr(st, f_, rewrite(v))
                for h in getattr(st, "handlers", []) or []:
                    h.body = rewrite(h.body)
                if any(isinstance(x, ast.Yield) for x in ast.walk(st)) and not isinstance(st, (ast.For, ast.While, ast.If, ast.Try, ast.With)):
                    ok[0] = False
                out.append(st)
            return out

        new = rewrite(body)
        if not ok[0] or n_y[0] == 0 or any(isinstance(x, ast.Yield) for b in new for x in ast.walk(b)):
            return None
        self.note(cand, True)
        return new

    def cm_inlined(self, fi, w, stack):
        """`with cm(args) as x: BODY` for a @contextmanager generator with one yield -> cm's body with the yield statement
        replaced by `x = value; BODY` (the try/except/finally around the yield now encloses BODY, which is what it does)"""
        if len(w.items) != 1 or not isinstance(w.items[0].context_expr, ast.Call):
            return None
        call = w.items[0].context_expr
        cand, recv = self.callee(fi, call, kind="cm")
        if cand is None or cand in stack:
            return None
        mapping = self.bind(cand, recv, call)
        if mapping is None:
            return None
        body = self.specialise(fi, cand, mapping, getattr(w, "lineno", 1), stack)
        if _returns(body):
            return None
        n_y = [0]
        target = w.items[0].optional_vars

        def rewrite(stmts):
            out = []
            for st in stmts:
                if isinstance(st, ast.Expr) and isinstance(st.value, ast.Yield):
                    n_y[0] += 1
                    if target is not None:
                        v = st.value.value if st.value.value is not None else ast.Constant(value=None)
                        out.append(ast.Assign(targets=[target], value=v, lineno=getattr(st, "lineno", 1), col_offset=0))
                    out.extend(w.body)
                    continue
                for f_ in ("body", "orelse", "finalbody"):
                    v = getattr(st, f_, None)
                    if isinstance(v, list) and v and isinstance(v[0], ast.stmt):
                        setattr(st, f_, rewrite(v))
                for h in getattr(st, "handlers", []) or []:
                    h.body = rewrite(h.body)
                out.append(st)
            return out

        new = rewrite(body)
        if n_y[0] != 1 or any(isinstance(x, ast.Yield) for b in new for x in ast.walk(b)):
            return None
        self.note(cand, True)
        return new

    def expr(self, fi, e, stack):
        inl = self

        class T(ast.NodeTransformer):
            def visit_Lambda(self, node):
                return node

            def visit_Call(self, node):
                self.generic_visit(node)
                g = inl.gen_as_expression(fi, node, stack)
                if g is not None:
                    return g
                cand, recv = inl.callee(fi, node)
                if cand is None or cand in stack:
                    if cand is not None:
                        inl.note(cand, False)
                    return node
                body0 = _strip_doc(cand.node_prep.body)
                if len(body0) == 1 and isinstance(body0[0], ast.Return) and body0[0].value is not None:
                    mapping = inl.bind(cand, recv, node)
                    if mapping is not None:
                        body = inl.specialise(fi, cand, mapping, getattr(node, "lineno", 1), stack)
                        if len(body) == 1 and isinstance(body[0], ast.Return):
                            inl.note(cand, True)
                            return ast.copy_location(body[0].value, node)
                inl.note(cand, False)
                return node

        return T().visit(e)


def simple_class_fields(idx, ci):
    """For a plain record/strategy class - `__init__` made only of `self.f = <expression over its parameters>` - the list
    [(field, expression)], the __init__ FuncInfo; else None."""
    if not hasattr(ci, "methods"):
        return None
    init = ci.methods.get("__init__")
    if init is None:
        return None
    for b in idx.mro(ci)[1:]:
        if hasattr(b, "methods") and "__init__" in b.methods:
            return None
    if any(m in ci.methods for m in ("__getattr__", "__getattribute__", "__setattr__", "__new__")):
        return None
    node = getattr(init, "node_prep", None) or init.node
    a = node.args
    if a.vararg or a.kwarg or a.kwonlyargs or a.posonlyargs or not a.args:
        return None
    sn = a.args[0].arg
    out = []
    for st in _strip_doc(node.body):
        if isinstance(st, ast.Assign) and len(st.targets) == 1 and isinstance(st.targets[0], ast.Attribute) and isinstance(st.targets[0].value, ast.Name) and st.targets[0].value.id == sn:
            if any(isinstance(x, ast.Name) and x.id == sn for x in ast.walk(st.value)):
                return None
            out.append((st.targets[0].attr, st.value))
        elif isinstance(st, ast.Pass):
            continue
        else:
            return None
    return out, init


def local_instance(idx, fi, name):
    """(ClassInfo, Assign node) when `name` is bound exactly once, in the enclosing top-level function, to `C(...)` with C
    a simple class of the package"""
    top = fi
    while top.parent is not None:
        top = top.parent
    node = getattr(top, "node_prep", None) or top.node
    # one walk per function body: {name: (number of stores, the `name = Call(...)` statement)}
    memo = idx.__dict__.setdefault("_local_instance_memo", {})
    key = id(node)
    ent = memo.get(key)
    if ent is None or ent[0] is not node:
        stores, calls = {}, {}
        for n in ast.walk(node):
            if isinstance(n, ast.Name) and isinstance(n.ctx, (ast.Store, ast.Del)):
                stores[n.id] = stores.get(n.id, 0) + 1
            if isinstance(n, ast.Assign) and len(n.targets) == 1 and isinstance(n.targets[0], ast.Name) and isinstance(n.value, ast.Call):
                calls[n.targets[0].id] = n
        ent = (node, stores, calls)
        memo[key] = ent
    found = ent[2].get(name)
    n_store = ent[1].get(name, 0)
    if found is None or n_store != 1 or name in [a.arg for a in node.args.args]:
        return None
    r = idx.resolve(top.module, found.value.func, top)
    if not r or r[0] != "class" or simple_class_fields(idx, r[1]) is None:
        return None
    return r[1], found


def _namedtuple_fields(idx, mod, func_expr, fi):
    """field names when `func_expr` denotes a module-level `X = namedtuple("X", fields)`, else None"""
    r = idx.resolve(mod, func_expr, fi)
    if not r or r[0] != "const":
        return None
    m, name = r[1], r[2]
    v = m.consts.get(name)
    if not (isinstance(v, ast.Call) and v.args and len(v.args) >= 2):
        return None
    q = idx.qualname(m, v.func)
    if q not in ("collections.namedtuple", "namedtuple"):
        return None
    try:
        f = idx.const(m, v.args[1])
    except KeyError:
        return None
    if isinstance(f, str):
        f = f.replace(",", " ").split()
    if isinstance(f, (list, tuple)) and all(isinstance(x, str) for x in f):
        return list(f)
    return None


def scalarise_namedtuples(idx, fi, node):
    """A local `w = NT(a, b, c)` whose only uses are `w.field` reads is replaced by one local per field; an NT(...)
    that is unpacked at once becomes a plain tuple.  (records introduced by a refactoring must not hide the values)"""
    mod = fi.module
    assigns = {}
    uses = {}
    other = set()
    stores = {}
    for n in ast.walk(node):
        if isinstance(n, ast.Name) and isinstance(n.ctx, ast.Store):
            stores[n.id] = stores.get(n.id, 0) + 1
    parents = {}
    for n in ast.walk(node):
        for c in ast.iter_child_nodes(n):
            parents[c] = n
    for n in ast.walk(node):
        if isinstance(n, ast.Assign) and len(n.targets) == 1 and isinstance(n.value, ast.Call):
            fields = _namedtuple_fields(idx, mod, n.value.func, fi)
            if fields is None:
                # an instance of a simple package class: fields are what __init__ stores, computed from its parameters
                r_ = idx.resolve(mod, n.value.func, fi)
                sc = simple_class_fields(idx, r_[1]) if r_ and r_[0] == "class" else None
                if sc is not None and isinstance(n.targets[0], ast.Name):
                    flds, init = sc
                    inode = getattr(init, "node_prep", None) or init.node
                    params = [a_.arg for a_ in inode.args.args[1:]]
                    c0 = n.value
                    if any(isinstance(a_, ast.Starred) for a_ in c0.args) or any(k.arg is None for k in c0.keywords) or len(c0.args) > len(params):
                        continue
                    bound = dict(zip(params, c0.args))
                    for k in c0.keywords:
                        bound[k.arg] = k.value
                    dfl = inode.args.defaults
                    for i_, p_ in enumerate(params):
                        if p_ not in bound:
                            j_ = i_ - (len(params) - len(dfl))
                            if j_ >= 0:
                                bound[p_] = dfl[j_]
                    if set(bound) != set(params):
                        continue

                    class _P(ast.NodeTransformer):
                        def visit_Name(self, x):
                            return copy.deepcopy(bound[x.id]) if x.id in bound and isinstance(x.ctx, ast.Load) else x

                    vals_ = {f_: _P().visit(copy.deepcopy(e_)) for f_, e_ in flds}
                    assigns[n.targets[0].id] = (n, [f_ for f_, _ in flds], vals_, "object")
                continue
            c = n.value
            if any(isinstance(a, ast.Starred) for a in c.args) or any(k.arg is None for k in c.keywords):
                continue
            vals = {}
            for f, a in zip(fields, c.args):
                vals[f] = a
            for k in c.keywords:
                vals[k.arg] = k.value
            if set(vals) != set(fields) or len(c.args) > len(fields):
                continue
            t = n.targets[0]
            if isinstance(t, ast.Name):
                assigns[t.id] = (n, fields, vals, "tuple")
            elif isinstance(t, (ast.Tuple, ast.List)) and len(t.elts) == len(fields):
                n.value = ast.copy_location(ast.Tuple(elts=[vals[f] for f in fields], ctx=ast.Load()), c)
    if not assigns:
        return node
    for n in ast.walk(node):
        if isinstance(n, ast.Name) and n.id in assigns and isinstance(n.ctx, ast.Load):
            par = parents.get(n)
            is_obj = assigns[n.id][3] == "object"
            if isinstance(par, ast.Attribute) and par.value is n and par.attr in assigns[n.id][1] and (isinstance(par.ctx, ast.Load) or (is_obj and isinstance(par.ctx, ast.Store))):
                uses.setdefault(n.id, []).append(par)
            else:
                other.add(n.id)
    todo = {w for w in assigns if stores.get(w) == 1 and w not in other}
    if not todo:
        return node

    class T(ast.NodeTransformer):
        def visit_Attribute(self, n):
            if isinstance(n.value, ast.Name) and n.value.id in todo and isinstance(n.ctx, (ast.Load, ast.Store)):
                return ast.copy_location(ast.Name(id="%s__%s" % (n.value.id, n.attr), ctx=n.ctx), n)
            self.generic_visit(n)
            return n

        def visit_Assign(self, n):
            if len(n.targets) == 1 and isinstance(n.targets[0], ast.Name) and n.targets[0].id in todo and assigns[n.targets[0].id][0] is n:
                w = n.targets[0].id
                _, fields, vals, kind_ = assigns[w]
                order = [f for f, _ in zip(fields, n.value.args)] + [k.arg for k in n.value.keywords] if kind_ == "tuple" else list(fields)
                out = []
                for f in order:
                    out.append(ast.copy_location(ast.Assign(targets=[ast.Name(id="%s__%s" % (w, f), ctx=ast.Store())], value=self.visit(vals[f]), lineno=n.lineno, col_offset=0), n))
                return out
            self.generic_visit(n)
            return n

    node = T().visit(node)
    ast.fix_missing_locations(node)
    return node


def propagate_name_copies(node):
    """`t = v` where t is assigned once and v is a name that is never (re)assigned in the function (a parameter such as
    `self`): every read of t becomes a read of v.  (temporaries left by record scalarisation and parameter passing)"""
    stores = {}
    for n in ast.walk(node):
        if isinstance(n, ast.Name) and isinstance(n.ctx, (ast.Store, ast.Del)):
            stores[n.id] = stores.get(n.id, 0) + 1
        elif isinstance(n, ast.ExceptHandler) and n.name:
            stores[n.name] = stores.get(n.name, 0) + 1
    params = {a.arg for a in node.args.args} | ({node.args.kwarg.arg} if node.args.kwarg else set()) | ({node.args.vararg.arg} if node.args.vararg else set())
    attr_stores = {n.attr for n in ast.walk(node) if isinstance(n, ast.Attribute) and isinstance(n.ctx, (ast.Store, ast.Del))}
    plain_assigned = {n.targets[0].id for n in ast.walk(node) if isinstance(n, ast.Assign) and len(n.targets) == 1 and isinstance(n.targets[0], ast.Name)}

    def stable(v):
        """an expression whose value cannot change inside this function: a constant, a parameter that is never reassigned,
        or an attribute chain on one none of whose attribute names is ever stored here"""
        if isinstance(v, ast.Constant):
            return not isinstance(v.value, str) or len(v.value) < 40
        if isinstance(v, ast.Name):
            if v.id in params:
                return not stores.get(v.id)
            # another local that is itself assigned exactly once (and is not a loop / with / except target)
            return stores.get(v.id) == 1 and v.id in plain_assigned
        if isinstance(v, ast.Attribute):
            return v.attr not in attr_stores and stable(v.value)
        return False

    copies = {}
    for n in ast.walk(node):
        if isinstance(n, ast.Assign) and len(n.targets) == 1 and isinstance(n.targets[0], ast.Name):
            t = n.targets[0].id
            # only temporaries the normaliser introduced itself (inlining / record scalarisation), never the author's locals
            is_temp = "__i" in t or t.startswith("__cm") or t.startswith("__r") or "__" in t[2:]
            # a plain alias `t = other_name` is removed for any local; richer values only for the normaliser's own temporaries
            if stores.get(t) == 1 and t not in params and (is_temp or (isinstance(n.value, ast.Name) and ("__" in n.value.id))) and stable(n.value):
                copies[t] = (n.value, n)
    if not copies:
        return node
    drop = {id(c[1]) for c in copies.values()}

    class T(ast.NodeTransformer):
        def visit_Assign(self, n):
            if id(n) in drop:
                return None
            self.generic_visit(n)
            return n

        def visit_Name(self, n):
            if isinstance(n.ctx, ast.Load) and n.id in copies:
                v = copies[n.id][0]
                hops = 0
                while isinstance(v, ast.Name) and v.id in copies and hops < 20:
                    v = copies[v.id][0]
                    hops += 1
                return ast.copy_location(copy.deepcopy(v), n)
            return n

        def visit_Expr(self, n):
            self.generic_visit(n)
            # a bare name or constant left over as a statement (the discarded value of an inlined helper)
            if isinstance(n.value, (ast.Name, ast.Constant)) and not (isinstance(n.value, ast.Constant) and isinstance(n.value.value, str)):
                return None
            return n

    node = T().visit(node)
    for n in ast.walk(node):
        for f_ in ("body", "finalbody"):
            v = getattr(n, f_, None)
            if isinstance(v, list) and not v and f_ == "body":
                setattr(n, f_, [ast.Pass(lineno=getattr(n, "lineno", 1), col_offset=0)])
    for n in ast.walk(node):
        if isinstance(n, ast.Try) and not n.finalbody and not n.handlers:
            n.finalbody = [ast.Pass(lineno=getattr(n, "lineno", 1), col_offset=0)]
    ast.fix_missing_locations(node)
    return node


def unwrap_decorators(idx, normalize_pre):
    """A function decorated with a package decorator of the wrapper pattern
           def deco(fn):                      (optionally @functools.wraps(fn) on the wrapper)
               def wrapper(<params>): ... fn(...) ...
               return wrapper
    is analysed as the wrapper's body with the original function available as a nested helper named like `fn`
    (so the usual inlining puts the original body where the wrapper calls it)."""
    from .index import FuncInfo

    inl = Inliner(idx)
    for fi in list(idx.funcs):
        node = fi.node_prep
        others = [d for d in node.decorator_list if not (isinstance(d, ast.Name) and d.id in ("staticmethod", "classmethod", "property"))]
        if len(others) != 1 or len(node.decorator_list) != 1:
            continue
        d = others[0]
        if isinstance(d, ast.Call):
            continue  # decorator factories (TOKEN(...), click options) are not wrappers of this kind
        r = idx.resolve(fi.module, d, fi)
        if not r or r[0] != "func":
            continue
        deco = r[1]
        dnode = getattr(deco, "node_prep", None) or deco.node
        body = _strip_doc(dnode.body)
        if len(dnode.args.args) != 1 or len(body) != 2 or not isinstance(body[0], ast.FunctionDef) or not (isinstance(body[1], ast.Return) and isinstance(body[1].value, ast.Name) and body[1].value.id == body[0].name):
            continue
        fn_param = dnode.args.args[0].arg
        wrapper = body[0]
        okd = True
        for wd in wrapper.decorator_list:
            q = None
            try:
                q = idx.qualname(deco.module, wd.func if isinstance(wd, ast.Call) else wd, deco)
            except Exception:
                q = None
            if q != "functools.wraps":
                okd = False
        if not okd or _has(wrapper.body, (ast.Yield, ast.YieldFrom, ast.FunctionDef, ast.ClassDef, ast.Global, ast.Nonlocal)):
            continue
        # the original function, as a nested helper of the decorated one
        orig_node = copy.deepcopy(node)
        orig_node.decorator_list = []
        orig_node.name = fn_param
        orig = FuncInfo(fn_param, fi.module, orig_node, cls=None, parent=fi)
        orig.enclosing_cls = fi.cls
        orig.node_orig = orig_node
        orig.node_prep = orig_node
        orig.absorbed = False
        orig.is_unwrapped_original = True
        orig.nested = dict(fi.nested)
        fi.nested = dict(fi.nested)
        fi.nested[fn_param] = orig
        idx.funcs.append(orig)
        wbody = copy.deepcopy(_strip_doc(wrapper.body))
        new = ast.FunctionDef(name=node.name, args=copy.deepcopy(wrapper.args), body=wbody, decorator_list=[], returns=None, type_comment=None, lineno=node.lineno, col_offset=node.col_offset)
        if deco.module is not fi.module:
            stored = _stored_names(new)
            params = {a.arg for a in wrapper.args.args} | ({wrapper.args.kwarg.arg} if wrapper.args.kwarg else set()) | ({wrapper.args.vararg.arg} if wrapper.args.vararg else set()) | {fn_param}
            ren = inl.harmonise(fi, deco, new.body, stored, params)
            if ren:
                sub = _Subst({}, ren)
                new.body = [sub.visit(b) for b in new.body]
        ast.fix_missing_locations(new)
        fi.node_prep = new
        fi.unwrapped_from = deco


def normalise(idx):
    """Replace every function body of the index by its helper-inlined form (the original stays in `node_orig`)."""
    from . import normalize_pre

    for fi in idx.funcs:
        fi.node_orig = fi.node
        fi.absorbed = False
    for fi in list(idx.funcs):
        try:
            fi.node_prep = normalize_pre.prepare(idx, fi, copy.deepcopy(fi.node_orig))
        except RecursionError:
            fi.node_prep = fi.node_orig
    unwrap_decorators(idx, normalize_pre)
    total_inlined = {}
    last_kept = {}
    for round_ in range(2):
        inl = Inliner(idx)
        new = {}
        for fi in idx.funcs:
            try:
                new[fi] = inl.inline_function(fi)
            except RecursionError:
                new[fi] = fi.node_prep
        changed = False
        for fi, n in new.items():
            before = ast.dump(n)
            try:
                n = scalarise_namedtuples(idx, fi, n)
                n = propagate_name_copies(n)
                n = normalize_pre.expand_partials(idx, fi.module, fi, n)
                n = normalize_pre.syntactic(idx, fi, n)
                n.body = normalize_pre.while_to_for(n.body)
                n.body = normalize_pre.unroll_const_loops(idx, fi.module, fi, n.body)
                n.body = normalize_pre.or_assignments(n.body)
                n.body = normalize_pre.loop_fission(n.body)
                n.body = normalize_pre.append_loops(n.body)
                n.body = normalize_pre.iter_next(n.body)
                n.body = fold_block(n.body)
                ast.fix_missing_locations(n)
            except RecursionError:
                pass
            if ast.dump(n) != before:
                changed = True
            fi.node = n
            # import statements that moved in with a helper's body bind names in this function now
            for x in idx._iter_own_nodes(n):
                if isinstance(x, (ast.Import, ast.ImportFrom)):
                    idx._import_bindings(fi.module, x, fi.local_bindings)
        for cand, cnt in inl.inlined_calls.items():
            total_inlined[cand] = total_inlined.get(cand, 0) + cnt
        last_kept = dict(inl.kept_calls)
        if not changed:
            break
        # what the post-passes uncovered (a partial that became a plain call, a record turned into locals) may be inlinable now
        for fi in idx.funcs:
            fi.node_prep = copy.deepcopy(fi.node)
    for cand, cnt in total_inlined.items():
        if cnt and not last_kept.get(cand):
            cand.absorbed = True
    inl.inlined_calls = total_inlined
    idx.inlined_helpers = sorted("%s (%d site(s))" % (c.key, n) for c, n in inl.inlined_calls.items())
    return idx
