"""Obligation records, known-findings matching, evidence files, exit codes.

Exit codes: 0 all obligations discharged (or only listed known findings), 1 VIOLATION, 2 ANALYSIS-ERROR.
"""
import json
import os
import sys
import time

VERIF = os.path.dirname(os.path.dirname(os.path.abspath(__file__)))


class AnalysisError(Exception):
    """The analyser cannot decide: anchor vanished, unknown construct, count below floor."""


class Ob(object):
    __slots__ = ("rule", "construct", "file", "line", "ok", "reason", "nontrivial", "path", "info")

    def __init__(self, rule, construct, file, line, ok, reason, nontrivial=True, path=None, info=False):
        self.rule = rule
        self.construct = construct
        self.file = file
        self.line = line
        self.ok = ok
        self.reason = reason
        self.nontrivial = nontrivial
        self.path = path
        self.info = info

    def as_dict(self):
        d = {
            "rule": self.rule,
            "construct": self.construct,
            "file": self.file,
            "line": self.line,
            "verdict": "holds" if self.ok else "VIOLATED",
            "reason": self.reason,
        }
        if self.path:
            d["path"] = self.path
        return d


class Ctx(object):
    def __init__(self, prop, tier="quick", seed=0, repo="/repo"):
        self.prop = prop
        self.tier = tier
        self.seed = seed
        self.repo = repo
        self.obs = []
        self.floors = []
        self.notes = []
        self.assumptions = []
        self.analysed = {}
        self.rules_text = {}
        self.t0 = time.time()
        self.extra = {}

    # -- recording
    def rule(self, rule_id, text):
        self.rules_text[rule_id] = text

    def ob(self, rule, construct, file, line, ok, reason, nontrivial=True, path=None):
        o = Ob(rule, construct, file, line, bool(ok), reason, nontrivial, path)
        self.obs.append(o)
        return o

    def hold(self, rule, construct, file, line, reason, nontrivial=True):
        return self.ob(rule, construct, file, line, True, reason, nontrivial)

    def violate(self, rule, construct, file, line, reason, path=None):
        return self.ob(rule, construct, file, line, False, reason, True, path)

    def floor(self, rule, what, count, minimum):
        """The number of instances a rule matched must not fall below what was confirmed by hand."""
        # `minimum` is the count confirmed by hand on the reference tree.  Code legitimately loses a few sites when it is
        # refactored (a delegation replaced by a helper call, two raise sites merged), so the alarm threshold is half of the
        # confirmed count (at least one): the floor guards against a rule that silently stopped matching, not against edits.
        threshold = max(1, (minimum + 1) // 2)
        self.floors.append({"rule": rule, "what": what, "count": count, "confirmed": minimum, "floor": threshold})
        if count < threshold:
            raise AnalysisError(
                "%s: %s matched %d instance(s), fewer than half of the %d confirmed by hand "
                "(the rule would pass vacuously)" % (rule, what, count, minimum)
            )

    def note(self, text):
        self.notes.append(text)

    def assume(self, text):
        if text not in self.assumptions:
            self.assumptions.append(text)

    def count(self, key, n=1):
        self.analysed[key] = self.analysed.get(key, 0) + n

    # -- finishing
    def load_known(self):
        p = os.path.join(VERIF, "known_findings.json")
        if not os.path.exists(p):
            return []
        with open(p) as f:
            data = json.load(f)
        return [e for e in data.get("findings", []) if e.get("property") == self.prop]

    def finish(self, error=None):
        wall = time.time() - self.t0
        known = self.load_known()
        known_keys = {(k["rule"], k["construct"]): k for k in known}
        bad = [o for o in self.obs if not o.ok]
        new, listed = [], []
        for o in bad:
            k = known_keys.get((o.rule, o.construct))
            (listed if k else new).append((o, k))
        lines = []
        seen_known = set()
        for o, k in listed:
            if (o.rule, o.construct) in seen_known:
                continue
            seen_known.add((o.rule, o.construct))
            lines.append("KNOWN-FINDING: property=%s %s [%s %s]" % (self.prop, k.get("what", o.reason), o.rule, o.construct))
        scratch_run = bool(os.environ.get("VERIF_NO_EVIDENCE"))  # self-test harness: never touch the committed evidence
        replay_dir = os.path.join(VERIF, "evidence", "replay") if not scratch_run else os.path.join(os.environ.get("TMPDIR", "/tmp"), "mpilot-verif-replay")
        for o, _ in new:
            os.makedirs(replay_dir, exist_ok=True)
            name = "%s_%s_%s.json" % (self.prop, o.rule.replace(".", "_"), abs(hash_str(o.construct)) % 10 ** 8)
            rp = os.path.join(replay_dir, name)
            with open(rp, "w") as f:
                json.dump(dict(o.as_dict(), property=self.prop), f, indent=1)
            print("  %s %s:%s %s\n      %s" % (o.rule, o.file, o.line, o.construct, o.reason))
            if o.path:
                for step in o.path:
                    print("      path: %s" % (step,))
            lines.append("VIOLATION property=%s replay=%s" % (self.prop, rp))
        status = 0
        if new:
            status = 1  # a violation established by a completed rule stands even if a later rule could not be decided
        elif error is not None:
            status = 2
        distinct = {(o.rule, o.construct) for o in self.obs if o.nontrivial}
        samples = []
        by_rule = {}
        for o in self.obs:
            by_rule.setdefault(o.rule, []).append(o)
        for r in sorted(by_rule):
            samples.append(by_rule[r][0].as_dict())
        for o in bad[:5]:
            if o.as_dict() not in samples:
                samples.append(o.as_dict())
        samples = samples[:14]
        per_rule = {r: {"instances": len(v), "violated": sum(1 for o in v if not o.ok)} for r, v in sorted(by_rule.items())}
        cov = {
            "explanation": (
                "Static analysis of /repo's current working tree (no mpilot code is imported or run). "
                "Each obligation is a structural necessary condition of the property, decided on every path / "
                "instance by the rule quoted under 'rules'. Numeric behaviour is not decided."
            ),
            "evaluations": len(self.obs),
            "distinct_nontrivial": len(distinct),
            "rule": "one evaluation per (rule, construct) obligation instance; non-trivial = verdict needed a path, "
            "dataflow, table or language computation (vacuous instances are not counted)",
            "obligations": len(self.obs),
            "discharged": sum(1 for o in self.obs if o.ok),
            "known_findings_echoed": len(seen_known),
            "samples": samples if samples else [{"note": "no obligation instance was produced"}],
            "per_rule": per_rule,
            "rules": self.rules_text,
            "floors": self.floors,
            "analysed": self.analysed,
            "notes": self.notes[:40],
            "exhaustive": True,
            "trusted_base": self.assumptions,
        }
        cov.update(self.extra)
        if error is not None:
            cov["analysis_error"] = str(error)
        ev = {
            "property_id": self.prop,
            "tier": self.tier,
            "seed": int(self.seed),
            "level": "other",
            "coverage": cov,
            "assumptions": self.assumptions,
            "wall_s": round(wall, 3),
            "violations": len(new),
        }
        if not scratch_run:
            os.makedirs(os.path.join(VERIF, "evidence"), exist_ok=True)
            with open(os.path.join(VERIF, "evidence", "%s.json" % self.prop), "w") as f:
                json.dump(ev, f, indent=1, default=str)
        print(
            "%s [%s]: %d obligation instance(s) over %d rule(s), %d discharged, %d known finding(s), %d new violation(s), %.2fs"
            % (self.prop, self.tier, len(self.obs), len(by_rule), cov["discharged"], len(seen_known), len(new), wall)
        )
        for ln in lines:
            print(ln)
        if error is not None:
            print("ANALYSIS-ERROR property=%s %s" % (self.prop, error))
        return status


def hash_str(s):
    h = 0
    for ch in s:
        h = (h * 131 + ord(ch)) & 0x7FFFFFFF
    return h
