#!/usr/bin/env python3
"""Confirm a seeded change delivered by a sub-agent and file it under /verif/seeded/<id>/.

usage: selftest/confirm_seed.py <source dir with patch.diff, demo.py, notes.md> <seed id> <property id> ["needs ..." text]
Confirms, on scratch copies of /repo's current tree (outside /repo and /verif, removed afterwards):
  * the patch applies, the package still imports and the 66 pinned tests still pass with it;
  * demo.py exits 1 (FAIL) with the patch and 0 (PASS) without it;
then runs every check against the patched copy and records which fire.  Writes patch.diff, demo.py, meta.json.
"""
import json
import os
import shutil
import subprocess
import sys

HERE = os.path.dirname(os.path.abspath(__file__))
sys.path.insert(0, HERE)
from trypatch import ALL, make_copy, run_check  # noqa: E402

VERIF = os.path.dirname(HERE)


def sh(cmd, cwd, env=None, timeout=900):
    e = dict(os.environ)
    e.update(env or {})
    p = subprocess.run(cmd, cwd=cwd, env=e, capture_output=True, text=True, timeout=timeout)
    return p.returncode, (p.stdout + p.stderr)


def main(src, seed_id, prop, needs=""):
    patch = os.path.join(src, "patch.diff")
    demo = os.path.join(src, "demo.py")
    clean = make_copy()
    dirty = make_copy()
    ran = []
    try:
        rc, out = sh(["patch", "-p1", "-i", os.path.abspath(patch)], dirty)
        ran.append("patch -p1 < patch.diff -> %d" % rc)
        if rc != 0:
            print("patch does not apply:\n" + out)
            return 2
        env = {"PYTHONPATH": dirty, "PYTHONDONTWRITEBYTECODE": "1"}
        rc, out = sh(["/venv/bin/python", "-m", "pytest", "-q", "-p", "no:cacheprovider", "-x"], dirty, env)
        tail = out.strip().splitlines()[-1] if out.strip() else ""
        ran.append("pytest with patch -> %s" % tail)
        if rc != 0 or "66 passed" not in tail:
            print("test suite does not stay green with the patch: %s" % tail)
            return 2
        shutil.copy(demo, os.path.join(dirty, "demo.py"))
        shutil.copy(demo, os.path.join(clean, "demo.py"))
        rc_d, out_d = sh(["/venv/bin/python", "demo.py"], dirty, env)
        rc_c, out_c = sh(["/venv/bin/python", "demo.py"], clean, {"PYTHONPATH": clean, "PYTHONDONTWRITEBYTECODE": "1"})
        ran.append("demo.py with patch -> exit %d" % rc_d)
        ran.append("demo.py without patch -> exit %d" % rc_c)
        if rc_d != 1 or rc_c != 0:
            print("demo does not discriminate: with patch exit %d, without exit %d\n%s\n%s" % (rc_d, rc_c, out_d[-600:], out_c[-600:]))
            return 2
        os.remove(os.path.join(dirty, "demo.py"))
        fired = {}
        errors = {}
        for p in ALL:
            _, rc, cons, err = run_check(p, dirty)
            if rc == 1:
                fired[p] = [c.split(" ", 2)[0] + " " + (c.split(" ", 2)[2] if len(c.split(" ", 2)) > 2 else "") for c, _ in cons]
            elif rc == 2:
                errors[p] = err[:1]
        dest = os.path.join(VERIF, "seeded", seed_id)
        os.makedirs(dest, exist_ok=True)
        shutil.copy(patch, os.path.join(dest, "patch.diff"))
        shutil.copy(demo, os.path.join(dest, "demo.py"))
        notes = ""
        if os.path.exists(os.path.join(src, "notes.md")):
            notes = open(os.path.join(src, "notes.md")).read()
            shutil.copy(os.path.join(src, "notes.md"), os.path.join(dest, "notes.md"))
        base = subprocess.run(["git", "-C", "/repo", "rev-parse", "--short", "HEAD"], capture_output=True, text=True).stdout.strip()
        meta = {
            "id": seed_id,
            "breaks_property": prop,
            "origin": "independent sub-agent given only the property text and a scratch worktree",
            "needs_to_manifest": needs,
            "repo_base_commit": base,
            "confirmed": ran,
            "checks_that_fire": fired,
            "checks_that_cannot_decide": errors,
            "caught_by_target_property_check": prop in fired,
        }
        with open(os.path.join(dest, "meta.json"), "w") as f:
            json.dump(meta, f, indent=1)
        print("%s: tests green, demo discriminates; fired: %s; undecided: %s" % (seed_id, {k: v[:2] for k, v in fired.items()} or "NONE", errors or "-"))
        return 0
    finally:
        shutil.rmtree(clean, ignore_errors=True)
        shutil.rmtree(dirty, ignore_errors=True)


if __name__ == "__main__":
    if len(sys.argv) < 4:
        print(__doc__)
        sys.exit(2)
    sys.exit(main(sys.argv[1], sys.argv[2], sys.argv[3], sys.argv[4] if len(sys.argv) > 4 else ""))
