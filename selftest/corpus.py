#!/usr/bin/env python3
"""Replays the stored patch corpus against scratch copies of the current tree.

  seeded/<id>/patch.diff          must make the check of the property it breaks exit 1   (written by independent sub-agents)
  selftest/benign/<id>/patch.diff behaviour-preserving refactorings: every check must stay silent (exit 0)
  selftest/twins_cross/<id>/       corrected twins of seeded changes that break another property: that property's check must exit 1
  selftest/benign_undecided/<id>/  correct changes some check cannot decide: exit 0 or 2 on every check, never a VIOLATION
A patch that no longer applies to the current tree is 'n/a', never a pass.  Usage: selftest/corpus.py [--jobs N] [Cnn]
"""
import glob
import json
import os
import shutil
import subprocess
import sys
from concurrent.futures import ThreadPoolExecutor

HERE = os.path.dirname(os.path.abspath(__file__))
VERIF = os.path.dirname(HERE)
sys.path.insert(0, HERE)
from trypatch import ALL, make_copy, run_check  # noqa: E402


def apply(tree, patch):
    r = subprocess.run(["patch", "-p1", "-s", "-f", "-i", os.path.abspath(patch)], cwd=tree, capture_output=True, text=True)
    return r.returncode == 0


def one(kind, name, patch, props, repo):
    tree = make_copy(repo)
    try:
        if not apply(tree, patch):
            return kind, name, "n/a", "patch no longer applies"
        msgs = []
        ok = True
        for p in props:
            _, rc, cons, err = run_check(p, tree)
            if kind == "seeded-undecided":
                # a seeded change the checks cannot decide (outside an engine's vocabulary): "cannot decide" or a VIOLATION, never "holds"
                if rc == 0:
                    ok = False
                    msgs.append("%s: the check says the property HOLDS on a seeded change it was recorded as unable to decide" % p)
                else:
                    msgs.append("%s: exit %d (%s)" % (p, rc, "now caught" if rc == 1 else "cannot decide"))
            elif kind == "declined":
                # a seeded change this family of technique cannot decide (recorded honestly): the check must not crash
                if rc == 2:
                    ok = False
                    msgs.append("%s: exit 2 %s" % (p, err[:1]))
                else:
                    msgs.append("%s: exit %d (declined: %s)" % (p, rc, "now caught" if rc == 1 else "not decidable here"))
            elif kind == "seeded":
                if rc != 1:
                    ok = False
                    msgs.append("%s: expected a VIOLATION, got exit %d %s" % (p, rc, err[:1]))
                else:
                    msgs.append("%s: %s" % (p, cons[0][0].split(" ")[0] if cons else "?"))
            elif kind == "undecided":
                # a correct change on which some check may answer "cannot decide" (exit 2) - never a VIOLATION
                if rc == 1:
                    ok = False
                    msgs.append("%s: exit 1 %s" % (p, [c.split(" ")[-1] for c, _ in cons][:2]))
                elif rc == 2:
                    msgs.append("%s: cannot decide" % p)
            else:
                if rc != 0:
                    ok = False
                    msgs.append("%s: exit %d %s %s" % (p, rc, [c.split(" ")[-1] for c, _ in cons][:2], err[:1]))
        return kind, name, "ok" if ok else "FAIL", "; ".join(msgs)
    finally:
        shutil.rmtree(tree, ignore_errors=True)


def jobs_for(prop=None):
    todo = []
    for d in sorted(glob.glob(os.path.join(VERIF, "seeded", "*", "meta.json"))):
        m = json.load(open(d))
        if prop is None or m["breaks_property"] == prop:
            todo.append(("seeded-undecided" if m.get("cannot_decide") else "declined" if m.get("declined") else "seeded", m["id"], os.path.join(os.path.dirname(d), "patch.diff"), [m["breaks_property"]]))
    for d in sorted(glob.glob(os.path.join(HERE, "benign", "*", "patch.diff"))):
        todo.append(("benign", os.path.basename(os.path.dirname(d)), d, [prop] if prop else ALL))
    for d in sorted(glob.glob(os.path.join(HERE, "twins_cross", "*", "meta.json"))):
        m = json.load(open(d))
        if prop is None or m["breaks_instead"] == prop:
            # the corrected version of a seeded change that keeps its own property but breaks another one: that one must fire
            todo.append(("seeded", os.path.basename(os.path.dirname(d)), os.path.join(os.path.dirname(d), "patch.diff"), [m["breaks_instead"]]))
    for d in sorted(glob.glob(os.path.join(HERE, "benign_undecided", "*", "patch.diff"))):
        todo.append(("undecided", os.path.basename(os.path.dirname(d)), d, [prop] if prop else ALL))
    return todo


def run_for_property(prop, repo="/repo", jobs=16):
    todo = jobs_for(prop)
    with ThreadPoolExecutor(max_workers=jobs) as ex:
        return list(ex.map(lambda t: one(t[0], t[1], t[2], t[3], repo), todo))


if __name__ == "__main__":
    prop = next((a for a in sys.argv[1:] if a.startswith("C")), None)
    res = run_for_property(prop)
    bad = 0
    for kind, name, st, msg in res:
        if st != "ok" or kind in ("seeded", "seeded-undecided", "declined", "undecided"):
            print("%-7s %-4s %-10s %s" % (kind, st, name, msg[:200]))
        bad += st == "FAIL"
    na = sum(1 for r in res if r[2] == "n/a")
    print("corpus: %d replayed, %d n/a, %d misbehaved" % (len(res) - na, na, bad))
    sys.exit(1 if bad else 0)
