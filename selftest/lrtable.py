"""Self-test of engine/grammar.LRTable (not a registered check): the LALR(1) table built from the extracted productions accepts
and rejects the same token-name sequences as the table PLY itself generates for /repo's grammar.  Run with /venv/bin/python."""
import random
import sys

sys.path.insert(0, "/verif")
repo = sys.argv[1] if len(sys.argv) > 1 else "/repo"
sys.path.insert(0, repo)
from engine import grammar  # noqa: E402
from engine.index import Index  # noqa: E402
from mpilot.parser.parser import Parser  # noqa: E402

ply = Parser().parser
L = grammar.Lexicon(Index(repo))
T = grammar.LRTable(L.productions, L.start, L.precedence)


def ply_accepts(tokens):
    stack = [0]
    toks = list(tokens) + ["$end"]
    i = 0
    while True:
        a = ply.action[stack[-1]].get(toks[i])
        if a is None:
            return False
        if a > 0:
            stack.append(a)
            i += 1
        elif a < 0:
            p = ply.productions[-a]
            if p.len:
                del stack[-p.len:]
            stack.append(ply.goto[stack[-1]][p.name])
        else:
            return True


terms = sorted({s for p in L.productions for s in p.rhs} - {p.lhs for p in L.productions})
rnd = random.Random(7)
base = ["ID", "EQUAL", "ID", "LPAREN", "ID", "EQUAL", "LBRACK", "STRING", "COLON", "INT", "COMMA", "ID", "COLON", "FLOAT", "COMMA", "RBRACK", "COMMA", "ID", "EQUAL", "LBRACK", "INT", "COMMA",
        "PLAIN_STRING", "COLON", "ID", "RBRACK", "COMMA", "ID", "EQUAL", "TRUE", "RPAREN", "ID", "LPAREN", "RPAREN"]
assert ply_accepts(base) and T.accepts(base), "base sentence"
n = acc = bad = 0
for _ in range(6000):
    s = list(base)
    for _k in range(rnd.choice((1, 1, 2, 3))):
        op = rnd.choice("dri")
        j = rnd.randrange(len(s)) if s else 0
        if op == "d" and s:
            del s[j]
        elif op == "r" and s:
            s[j] = rnd.choice(terms)
        else:
            s.insert(j, rnd.choice(terms))
    a, b = ply_accepts(s), T.accepts(s)
    n += 1
    acc += a
    if a != b:
        bad += 1
        print("DISAGREE ply=%s mine=%s %s" % (a, b, " ".join(s)))
print("lrtable: %d sequences (%d accepted by PLY), %d disagreements; conflicts: %d" % (n, acc, bad, len(T.conflicts)))
sys.exit(1 if bad else 0)
