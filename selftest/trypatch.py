#!/usr/bin/env python3
"""Run the checks against a scratch copy of /repo's working tree with one patch applied.

usage: selftest/trypatch.py <patch.diff> [Cnn ...]        (default: all 20 properties)
Prints, per property, exit status and the VIOLATION constructs.  The scratch copy lives outside /repo and /verif and is
removed afterwards.  Nothing here is a registered check; it is the harness used to confirm which checks catch which change.
"""
import os
import shutil
import subprocess
import sys
import tempfile
from concurrent.futures import ThreadPoolExecutor

VERIF = os.path.dirname(os.path.dirname(os.path.abspath(__file__)))
ALL = ["C%02d" % i for i in range(1, 21)]


def make_copy(repo="/repo"):
    base = os.environ.get("VERIF_SCRATCH") or os.path.expanduser("~/scratch")
    os.makedirs(base, exist_ok=True)
    d = tempfile.mkdtemp(prefix="mpilot-verif-", dir=base)
    for name in ("mpilot", "pyproject.toml", "tests"):
        src = os.path.join(repo, name)
        if os.path.isdir(src):
            shutil.copytree(src, os.path.join(d, name), ignore=shutil.ignore_patterns("__pycache__"))
        elif os.path.exists(src):
            shutil.copy(src, os.path.join(d, name))
    return d


def run_check(prop, tree, tier="quick"):
    env = dict(os.environ)
    env["VERIF_NO_EVIDENCE"] = "1"
    p = subprocess.run([os.path.join(VERIF, "check"), prop, "--tier", tier, "--repo", tree], capture_output=True, text=True, env=env, cwd=VERIF)
    cons = []
    lines = p.stdout.splitlines()
    for i, ln in enumerate(lines):
        if ln.startswith("  C") and " mpilot" in ln:
            msg = lines[i + 1].strip() if i + 1 < len(lines) else ""
            cons.append((ln.strip(), msg))
    err = [ln for ln in lines if ln.startswith("ANALYSIS-ERROR")]
    return prop, p.returncode, cons, err


def evaluate(patch, props=None, tier="quick", keep=False):
    d = make_copy()
    try:
        if patch:
            r = subprocess.run(["git", "apply", "--unsafe-paths", "--directory", d, os.path.abspath(patch)], capture_output=True, text=True, cwd=d)
            if r.returncode != 0:
                r = subprocess.run(["patch", "-p1", "-d", d, "-i", os.path.abspath(patch)], capture_output=True, text=True)
                if r.returncode != 0:
                    return None, "patch does not apply: %s" % (r.stderr or r.stdout)
        with ThreadPoolExecutor(max_workers=16) as ex:
            res = list(ex.map(lambda p: run_check(p, d, tier), props or ALL))
        return res, None
    finally:
        if not keep:
            shutil.rmtree(d, ignore_errors=True)


if __name__ == "__main__":
    if len(sys.argv) < 2:
        print(__doc__)
        sys.exit(2)
    patch = sys.argv[1] if sys.argv[1] != "-" else None
    res, err = evaluate(patch, sys.argv[2:] or None)
    if err:
        print(err)
        sys.exit(2)
    for prop, rc, cons, aerr in res:
        if rc == 0:
            continue
        print("%s exit=%d" % (prop, rc))
        for c, m in cons:
            print("   %s\n        %s" % (c, m[:200]))
        for e in aerr:
            print("   %s" % e)
    print("silent: %s" % " ".join(p for p, rc, _, _ in res if rc == 0))
