#!/bin/sh
# usage: selftest/trybenign.sh <dir with R*/patch.diff>   -> prints per patch which checks are not silent
for d in "$1"/R*; do
  echo "== $d"
  python3 /verif/selftest/trypatch.py "$d/patch.diff" 2>&1 | cut -c1-330
done
