#!/venv/bin/python
"""Confirms the numpy axioms of engine/numpy_axioms.md against the installed numpy.

This validates the analyser's model of numpy; it is NOT evidence about mpilot and never runs mpilot code.
Exit 0 when every axiom holds, 1 otherwise."""
import functools
import sys
import warnings

import numpy as np

warnings.simplefilter("ignore")
ma = np.ma
FAIL = []


def check(name, cond):
    print("%-4s %s" % ("ok" if cond else "FAIL", name))
    if not cond:
        FAIL.append(name)


a = ma.array([1.0, 2.0, 3.0], mask=[0, 1, 0])
a.data[1] = -9999.0
b = ma.array([4.0, 5.0, 6.0], mask=[0, 0, 1])
i = ma.array([1, 2, 3])

c = np.copy(a)
check("A1 numpy.copy(m) is a plain ndarray exposing hidden data", type(c) is np.ndarray and c[1] == -9999.0)
c = a.copy()
check("A2 m.copy() is a fresh MaskedArray", isinstance(c, ma.MaskedArray) and not np.shares_memory(c.data, a.data) and list(c.mask) == [False, True, False])
r = a - b
check("A3 operator: fresh masked, union mask", isinstance(r, ma.MaskedArray) and list(r.mask) == [False, True, True])
r = a / ma.array([0.0, 1.0, 1.0])
check("A3 division masks zero divisors", list(r.mask) == [True, True, False])
check("A3 promotion int*pyfloat->float, int/int->float, int*pyint->int", (i * 0.5).dtype.kind == "f" and (i / 2).dtype.kind == "f" and (i * 2).dtype.kind == "i")
try:
    t = i.copy()
    t += ma.array([0.5, 0.5, 0.5])
    ok = False
except TypeError:
    ok = True
check("A4 int target += float operand raises (same_kind cast)", ok)
try:
    t = i.copy()
    t /= 2
    ok = False
except TypeError:
    ok = True
check("A4 int target /= anything raises", ok)
t = a.copy()
ident = id(t)
t += b
check("A4 augmented operator keeps object, dtype and unions the mask", id(t) == ident and list(t.mask) == [False, True, True])
p = np.copy(a)
p *= b
check("A4 plain *= masked stays plain and consumes hidden data", type(p) is np.ndarray and p[1] == -9999.0 * 5.0)
r = ma.minimum(a, b)
check("A5 ma.minimum: fresh masked, union mask", isinstance(r, ma.MaskedArray) and list(r.mask) == [False, True, True])
s = sum([a])
check("A6 sum([m0]) is fresh and masked", isinstance(s, ma.MaskedArray) and s is not a and list(s.mask) == [False, True, False])
check("A6 reduce(f, [m0]) and reduce(f, [], m0) return m0 itself", functools.reduce(ma.maximum, [a]) is a and functools.reduce(ma.maximum, [], a) is a)
check("A7 reductions ignore masked cells", a.min() == 1.0 and a.max() == 3.0 and a.mean() == 2.0 and ma.mean(a) == 2.0 and abs(ma.std(a) - 1.0) < 1e-12)
check("A8 .data is a plain view; .mask the mask array; nomask.copy() works", np.shares_memory(a.data, a) and type(a.data) is np.ndarray and ma.array([1.0]).mask.copy() is not None)
sel = a[a != 1]
check("A9 boolean selection is 1-D and keeps masked cells masked", sel.ndim == 1 and sel.mask.tolist() == [True, False])
r = ma.empty(a.shape, dtype=float)
r[:] = 0
r[a <= 1] = 7
check("A9 store through a masked boolean index uses the hidden comparison result at the same cell only", r[0] == 7 and r[2] == 0)
x2 = [np.zeros((2, 3)), np.ones((2, 3))]
x1 = [np.arange(3.0), np.arange(3.0)]
check("A10 vstack adds the layer axis only for 1-D; stack always", np.vstack(x1).shape == (2, 3) and np.vstack(x2).shape == (4, 3) and np.stack(x2).shape == (2, 2, 3))
st = ma.array(np.stack([[3.0, 1.0], [2.0, 5.0], [9.0, 0.0]]), mask=np.broadcast_to([False, True], (3, 2)).copy())
st.sort(axis=0, kind="heapsort")
check("A11 sort(axis=0) sorts layer columns ascending in place", st[:, 0].tolist() == [2.0, 3.0, 9.0])
check("A12 layer slices and axis-0 mean give the cell shape with the cell mask", ma.mean(st[-2:], axis=0).shape == (2,) and ma.mean(st[-2:], axis=0)[0] == 6.0 and bool(ma.mean(st[-2:], axis=0).mask[1]))
w = ma.where(a < 2, 0, a)
check("A13 ma.where: masked, mask covers condition/selected branch, dtype promoted", isinstance(w, ma.MaskedArray) and bool(w.mask[1]) and w.dtype.kind == "f")
check("A14 constructors", isinstance(ma.array(np.full((2,), 1.0)), ma.MaskedArray) and type(np.full((2,), 1.0)) is np.ndarray and ma.array([a, b]).shape == (2, 3) and ma.array([a, b]).mask.tolist()[0] == [False, True, False])
pl = np.arange(3.0)
check("A14 ma.asarray(plain) wraps the same storage", np.shares_memory(ma.asarray(pl), pl))
r = ma.empty(a.shape, dtype=float)
r[:] = 1
r.mask = a.mask.copy()
check("A15 r.mask = b replaces the mask", r.mask.tolist() == [False, True, False])
check("A16 compressed(): 1-D plain array of unmasked values", type(a.compressed()) is np.ndarray and a.compressed().tolist() == [1.0, 3.0])
idx = np.where(np.logical_and(a.data > 0, a.data <= 3))
r = ma.empty(a.shape, dtype=float)
r[:] = 0
r[idx] = a.data[idx]
check("A17 where(c) index tuple transfers cell-wise", isinstance(idx, tuple) and r.tolist() == [1.0, 0.0, 3.0])
bt = np.broadcast_to(a.mask, [2, 3])
check("A18 broadcast_to is read-only, its copy writable", (not bt.flags.writeable) and bt.copy().flags.writeable)
try:
    bool(a.mask or False)
    ok = False
except ValueError:
    ok = True
check("A19 array truth value is ambiguous", ok)
o = np.array([1.4, 2.6])
np.rint(o, out=o)
check("A20 rint(out=x) writes into x", o.tolist() == [1.0, 3.0])
la = ma.array([1.0, 2.0, 3.0], mask=[False, True, False])
lb = ma.array([5.0, 0.0, 1.0], mask=[False, False, True])
r = ma.minimum.reduce([la, lb], axis=0)
check("A21 ma.<ufunc>.reduce(list): plain ndarray, masks dropped, hidden data used", type(r) is np.ndarray and r.tolist() == [1.0, 0.0, 1.0])
r = ma.average([la, lb], axis=0, weights=[1, 3])
check("A21 ma.average/ma.mean(list, axis=0): stacked with one mask per layer - a cell missing in one input only comes out present", isinstance(r, ma.MaskedArray) and not np.any(ma.getmaskarray(r)) and r.tolist() == [4.0, 0.0, 3.0])
check("A21 numpy.mean(list, axis=0): plain, hidden data used", type(np.mean([la, lb], axis=0)) is np.ndarray)
f64 = ma.array([1.0, 2.0])
check("A22 astype(copy=False) returns the array itself when the element type already matches", f64.astype(float, copy=False) is f64 and ma.array([1, 2]).astype(float, copy=False).dtype.kind == "f")
src = ma.array([0.0, 1.0, 0.0, 2.0], mask=[False, False, True, False])
before = src.mask.tolist()
v = ma.masked_equal(src, 0, copy=False)
check("A23 masked_equal(m, v, copy=False) writes the new mask into m's own mask buffer", src.mask.tolist() != before and src.mask.tolist() == [True, False, True, False])
buf = np.empty((2, 2), dtype=np.array([1, 2]).dtype)
buf[1] = np.array([0.5, 1.5])
check("A4' an item store casts silently to the buffer's dtype (float layer into an integer buffer is truncated)", buf[1].tolist() == [0, 1])
gm = ma.array([1.0, 2.0], mask=[False, True])
check("A24 ma.getmaskarray(m) is m's own mask buffer when m has a mask", ma.getmaskarray(gm) is gm.mask or np.shares_memory(ma.getmaskarray(gm), gm.mask))
import os  # noqa: E402

sys.path.insert(0, os.path.dirname(os.path.dirname(os.path.abspath(__file__))))
from engine.arrays import UNARY_UFUNCS  # noqa: E402
um = ma.array([0.25, 0.5, 0.75], mask=[False, True, False])
bad_unary = []
with np.errstate(all="ignore"):
    for fn_ in sorted(UNARY_UFUNCS):
        for ns in (np, ma):
            f_ = getattr(ns, fn_, None)
            if f_ is None:
                continue
            r_ = f_(um)
            if not (isinstance(r_, ma.MaskedArray) and r_.shape == um.shape and bool(ma.getmaskarray(r_)[1]) and r_ is not um and not np.shares_memory(r_.data, um.data)):
                bad_unary.append("%s.%s" % (ns.__name__, fn_))
check("A25 one-argument element-wise functions keep shape and missing cells and return a fresh masked array %s" % bad_unary, not bad_unary)
hm = ma.array([1.0, 2.0, 3.0], mask=[False, True, False])
hm.harden_mask()
hm[np.array([True, True, False])] = 9.0
hard_ok = hm.mask.tolist() == [False, True, False] and hm.data[1] == 2.0
hm.soften_mask()
hm[np.array([False, True, False])] = 7.0
check("A26 a hard mask keeps missing cells through item stores; soften_mask() restores A9", hard_ok and hm.mask.tolist() == [False, False, False])
tm = ma.array([1.0, 2.0, 3.0], mask=[False, False, False])
ym = ma.array([5.0, 6.0, 7.0], mask=[True, False, False])
tm[ma.getmask(ym)] = ma.masked
check("A27 x[getmask(y)] = masked marks x missing where y is and leaves the data alone; nomask / is_masked tell a mask-free array", tm.mask.tolist() == [True, False, False] and tm.data.tolist() == [1.0, 2.0, 3.0] and ma.getmask(ma.array([1.0])) is ma.nomask and not ma.is_masked(ma.array([1.0, 2.0])))
g1 = ma.array(np.arange(6.0).reshape(2, 3), mask=[[False, True, False], [False, False, False]])
g2 = ma.array(np.arange(6.0).reshape(2, 3) * 10, mask=np.zeros((2, 3), bool))
stk = ma.stack([g1, g2])
flat = stk.reshape(2, g1.size)
w2 = np.array([2.0, 0.5])
dd = ma.dot(w2, flat, strict=True).reshape(g1.shape)
ref = g1 * 2.0 + g2 * 0.5
col = w2.reshape((-1,) + (1,) * (stk.ndim - 1))
ss = sum(stk * col)
check("A28 ravel/reshape round trip, dot over the flattened stack (strict), per-layer broadcast and sum(stack) agree with the layer-by-layer sum",
      np.array_equal(g1.ravel().reshape(g1.shape).data, g1.data) and np.allclose(dd.filled(-1), ref.filled(-1)) and dd.mask.tolist() == ref.mask.tolist()
      and np.allclose(ss.filled(-1), ref.filled(-1)) and ss.mask.tolist() == ref.mask.tolist() and not ma.dot(w2, flat, strict=False).reshape(g1.shape).mask.any())
av = ma.array([[1.0, 2.0], [3.0, 4.0]], mask=[[False, True], [False, False]])
av0 = ma.average(av, axis=0, weights=[0, 0])
av1 = ma.average(av, axis=0, weights=[1, 3])
check("A29 numpy.ma.average(stack, axis=0, weights=w): weighted layer mean over the cells present (weights renormalised), masked where the weight sum is 0",
      av0.mask.tolist() == [True, True] and av1.mask.tolist() == [False, False] and np.allclose(av1.data, [2.5, 4.0]))
ug = np.array([[3, 1, 3], [2, 1, 2]])
uv, ui = np.unique(ug, return_inverse=True)
tbl = np.array([10.0, 20.0, 30.0])
check("A30 numpy.unique(x, return_inverse=True): table[inverse].reshape(x.shape) looks every cell's value up in a per-value table, cell by cell",
      np.array_equal(tbl[ui].reshape(ug.shape), np.array([[30.0, 10.0, 30.0], [20.0, 10.0, 20.0]])) and np.array_equal(uv[ui].reshape(ug.shape), ug))
cz = ma.array(np.array([3.0, 1.0, 2.0]))
cm = ma.array(np.array([3.0, 1.0, 2.0]), mask=[False, False, False])
check("A31 compressed() of an array without a mask array is a view of its data (an in-place sort reorders the source); with a mask array it is a copy",
      np.shares_memory(cz.compressed(), cz.data) and not np.shares_memory(cm.compressed(), cm.data))
fo = np.asfortranarray(np.arange(6.0).reshape(2, 3))
co = np.arange(6.0).reshape(2, 3)
check("A32 ravel(order='A'/'K') follows the memory layout while reshape(shape, order='A') of the 1-D result writes row-major: the pair is the identity for C-ordered grids only; order='C' (the default) on both sides is the identity for every layout",
      not np.array_equal(fo.ravel(order="A").reshape(fo.shape, order="A"), fo) and np.array_equal(co.ravel(order="A").reshape(co.shape, order="A"), co)
      and np.array_equal(fo.ravel().reshape(fo.shape), fo) and np.array_equal(fo.T.ravel().reshape(fo.T.shape), fo.T))
a33 = ma.array([1.0, 2.0, 3.0], mask=[False, True, False])
a33c = ma.array(ma.getdata(a33), mask=ma.getmask(a33), dtype=float, copy=True)
a33s = ma.array(ma.getdata(a33), mask=ma.getmask(a33), dtype=float)
check("A33 numpy.ma.array(data, mask=m, copy=True) shares neither the data nor the mask argument; without copy= both are shared",
      not np.shares_memory(a33c.mask, a33.mask) and not np.shares_memory(a33c.data, a33.data) and np.shares_memory(a33s.mask, a33.mask) and np.shares_memory(a33s.data, a33.data))
print("%d axiom check(s) failed" % len(FAIL))
sys.exit(1 if FAIL else 0)
