#!/usr/bin/env python3
"""Self-test of the analyser in both directions (DESIGN.md section 5).

Every variant is a small textual edit applied to a scratch copy of /repo's CURRENT tree (outside /repo and /verif, removed
afterwards).  Breaking variants must produce a VIOLATION whose construct contains the expected fragment, for the expected
property; benign variants (behaviour-preserving rewrites) must leave every listed check silent (exit 0).
An edit whose anchor text is not found in the current tree is reported as 'not applicable' (the tree has moved on), never
as a pass.  Usage: selftest/variants.py [--jobs N] [--only id-substring]   Exit 0 iff every applicable variant behaved.
"""
import os
import shutil
import subprocess
import sys
from concurrent.futures import ThreadPoolExecutor

HERE = os.path.dirname(os.path.abspath(__file__))
sys.path.insert(0, HERE)
from trypatch import make_copy, run_check  # noqa: E402

B = "mpilot/libraries/eems/basic.py"
F = "mpilot/libraries/eems/fuzzy.py"
U = "mpilot/utils.py"
CMD = "mpilot/commands.py"
PRG = "mpilot/program.py"
PAR = "mpilot/params.py"
PSR = "mpilot/parser/parser.py"
CLI = "mpilot/cli/mpilot.py"
MIX = "mpilot/libraries/eems/mixins.py"
NCIO = "mpilot/libraries/eems/netcdf/io.py"
CSVIO = "mpilot/libraries/eems/csv/io.py"

# (id, file, old, new, {property: fragment expected in a violated construct})   -- breaking variants
BREAK = [
    ("run-guard-removed", CMD, "        if not self.is_finished:\n            if self.is_running:", "        if True:\n            if self.is_running:", {"C01": "guard-before-execute"}),
    ("flag-store-removed", CMD, "\n            self.is_finished = True\n", "\n            pass\n", {"C01": "store-result-then-flag"}),
    ("execute-from-program-run", PRG, "        for command in self.commands.values():\n            command.run()\n", "        for command in self.commands.values():\n            command.execute()\n", {"C01": "execute-reference"}),
    ("memo-read-by-consumer", PAR, "self.output_type.clean(value.result, program, lineno)", "self.output_type.clean(value._result, program, lineno)", {"C01": "read(_result)"}),
    ("reentrancy-test-removed", CMD, "            if self.is_running:\n                raise RecursiveModelStructure(self.lineno)\n\n", "", {"C14": "re-entrancy-guard"}),
    ("final-sweep-removed", PRG, "        for command in self.commands.values():\n            command.run()\n", "", {"C14": "nothing-skipped"}),
    ("list-clean-sliced", PAR, "            for item in value\n        ]", "            for item in value[1:]\n        ]", {"C01": "elementwise"}),
    ("clamp-dropped-FuzzyNot", F, "        result = -arr\n\n        return insure_fuzzy(result, FUZZY_MIN, FUZZY_MAX)", "        result = -arr\n\n        return result", {"C04": "FuzzyNot.execute::return#1"}),
    ("clamp-one-side", U, "    arr[arr < fuzzy_min] = fuzzy_min\n", "", {"C04": "insure_fuzzy::both-sides"}),
    ("clamp-wrong-bound", F, "        return insure_fuzzy(result, FUZZY_MIN, FUZZY_MAX)\n\n\nclass FuzzyAnd", "        return insure_fuzzy(result, 0, FUZZY_MAX)\n\n\nclass FuzzyAnd", {"C04": "FuzzyOr.execute::return#1"}),
    ("arith-after-clamp", F, "        return insure_fuzzy(result, FUZZY_MIN, FUZZY_MAX)\n\n\nclass FuzzyWeightedUnion", "        return insure_fuzzy(result, FUZZY_MIN, FUZZY_MAX) * 1.0\n\n\nclass FuzzyWeightedUnion", {"C04": "FuzzyUnion.execute::return#1"}),
    ("copy-removed-before-inplace", F, "arrays[1:], arrays[0].copy()\n        )\n\n        return insure_fuzzy(result, FUZZY_MIN, FUZZY_MAX)\n\n\nclass FuzzyAnd", "arrays[1:], arrays[0]\n        )\n\n        return insure_fuzzy(result, FUZZY_MIN, FUZZY_MAX)\n\n\nclass FuzzyAnd", {"C09": "FuzzyOr.execute::inplace"}),
    ("alias-then-inplace-CvtFromFuzzy", F, "        result = arr - x1\n        result *= y2 - y1\n        result /= x2 - x1\n        result += y1\n\n        return result", "        result = arr\n        result -= x1\n        result *= y2 - y1\n        result /= x2 - x1\n        result += y1\n\n        return result", {"C09": "CvtFromFuzzy.execute::inplace"}),
    ("data-statistic", B, "        arr_min = float(arr.min())\n        arr_max = float(arr.max())", "        arr_min = float(arr.data.min())\n        arr_max = float(arr.max())", {"C03": "Normalize.execute::return#1"}),
    ("remask-removed-NormalizeCurve", B, "        result[arr > value_pairs[-1][0]] = value_pairs[-1][1]\n        result.mask = arr.mask.copy()\n\n        return result\n\n\nclass NormalizeMeanToMid", "        result[arr > value_pairs[-1][0]] = value_pairs[-1][1]\n\n        return result\n\n\nclass NormalizeMeanToMid", {"C03": "NormalizeCurve.execute::return#1"}),
    ("numpy-copy-back", B, '        return kwargs["InFieldName"].result.copy()', '        return numpy.copy(kwargs["InFieldName"].result)', {"C03": "Copy.execute::return#1", "C02": "Copy.execute::return#1"}),
    ("first-input-dropped-from-fold", B, "        return reduce(lambda x, y: numpy.ma.minimum(x, y), arrays)", "        return reduce(lambda x, y: numpy.ma.minimum(x, y), arrays[1:])", {"C07": "Minimum.execute"}),
    ("zip-misaligned", B, "        for weight, arr in zip(weights[1:], arrays[1:]):\n            result = result + arr * weight\n\n        return result\n", "        for weight, arr in zip(weights, arrays[1:]):\n            result = result + arr * weight\n\n        return result\n", {"C07": "WeightedSum.execute::symmetric-roles"}),
    ("selected-union-wrong-end", F, "stacked_arr[-number_to_consider:], axis=0)", "stacked_arr[:number_to_consider], axis=0)", {"C06": "selected-end"}),
    ("xor-guard-strict", F, "            stacked_arr[-1] <= FUZZY_MIN,", "            stacked_arr[-1] < FUZZY_MIN,", {"C06": "guarded-quotient"}),
    ("vstack-back", F, "numpy.stack([arr.data for arr in arrays]),\n            mask=stacked_mask.copy(),\n        )\n\n        stacked_arr.sort(axis=0, kind=\"heapsort\")\n\n        result = numpy.ma.where", "numpy.vstack([arr.data for arr in arrays]),\n            mask=stacked_mask.copy(),\n        )\n\n        stacked_arr.sort(axis=0, kind=\"heapsort\")\n\n        result = numpy.ma.where", {"C05": "FuzzyXOr.execute::return#1"}),
    ("sort-on-data-axis", F, 'stacked_arr.sort(axis=0, kind="heapsort")\n\n        if truest_or_falsest', 'stacked_arr.sort(axis=1, kind="heapsort")\n\n        if truest_or_falsest', {"C05": "FuzzySelectedUnion.execute"}),
    ("validate-removed-Sum", B, "        arrays = [c.result for c in kwargs[\"InFieldNames\"]]\n        self.validate_array_shapes(arrays, lineno=self.lineno)\n\n        result = arrays[0].copy()\n\n        for arr", "        arrays = [c.result for c in kwargs[\"InFieldNames\"]]\n\n        result = arrays[0].copy()\n\n        for arr", {"C07": "Sum.execute::shapes-validated", "C05": "Sum.execute::shapes-validated"}),
    ("inplace-accumulation-back", B, "        for arr in arrays[1:]:\n            result = result + arr\n", "        for arr in arrays[1:]:\n            result += arr\n", {"C07": "Sum.execute::inplace"}),
    ("sorted-removed", B, "        value_pairs = sorted(zip(raw_values, normal_values))\n\n        # For raw values less than the lowest raw value, set them to the corresponding normal value\n        result[arr <= value_pairs[0][0]] = value_pairs[0][1]\n\n        # Assign normal values for each of the line segments that approximate the curve\n        for i, (raw, normal) in list(enumerate(value_pairs))[1:]:\n            prev_raw = value_pairs[i - 1][0]\n            prev_normal = value_pairs[i - 1][1]\n\n            m = (normal - prev_normal) / (raw - prev_raw)\n            b = prev_normal - m * prev_raw\n\n            where_idx = numpy.where(\n                numpy.logical_and(arr.data > prev_raw, arr.data <= raw)\n            )\n\n            result[where_idx]", "        value_pairs = list(zip(raw_values, normal_values))\n\n        # For raw values less than the lowest raw value, set them to the corresponding normal value\n        result[arr <= value_pairs[0][0]] = value_pairs[0][1]\n\n        # Assign normal values for each of the line segments that approximate the curve\n        for i, (raw, normal) in list(enumerate(value_pairs))[1:]:\n            prev_raw = value_pairs[i - 1][0]\n            prev_normal = value_pairs[i - 1][1]\n\n            m = (normal - prev_normal) / (raw - prev_raw)\n            b = prev_normal - m * prev_raw\n\n            where_idx = numpy.where(\n                numpy.logical_and(arr.data > prev_raw, arr.data <= raw)\n            )\n\n            result[where_idx]", {"C08": "NormalizeCurve.execute::control-points-sorted-as-pairs"}),
    ("threshold-guard-removed", F, "        if true_threshold == false_threshold:\n            raise InvalidThresholds(self.lineno)\n\n        y1 = float(true_threshold)", "        y1 = float(true_threshold)", {"C08": "CvtFromFuzzy.execute::guard(InvalidThresholds)"}),
    ("rename-dropped-CvtToFuzzyCurve", F, '        kwargs["NormalValues"] = kwargs["FuzzyValues"]\n        del kwargs["FuzzyValues"]\n\n        return insure_fuzzy(\n            super(CvtToFuzzyCurve, self)', '        kwargs["NormalValues"] = kwargs["RawValues"]\n        del kwargs["FuzzyValues"]\n\n        return insure_fuzzy(\n            super(CvtToFuzzyCurve, self)', {"C08": "CvtToFuzzyCurve.execute::delegates"}),
    ("except-narrowed-number", PAR, "        except (ValueError, TypeError):\n            try:\n                return float(value)", "        except ValueError:\n            try:\n                return float(value)", {"C13": "NumberParameter.clean::total", "C20": "NumberParameter.clean::total"}),
    ("run-handler-narrowed", CMD, "            except Exception as exc:", "            except ValueError as exc:", {"C13": "wrapping-handler"}),
    ("cli-exit-zero", CLI, "            sys.stderr.write(\"\\n\")\n\n        sys.exit(-1)", "            sys.stderr.write(\"\\n\")\n\n        sys.exit(0)", {"C13": "main::handler"}),
    ("lineno-dropped-duplicate", PRG, "            raise DuplicateResult(result_name, lineno=lineno)", "            raise DuplicateResult(result_name)", {"C11": "raise(DuplicateResult)"}),
    ("lineno-dropped-clean-call", CMD, "                cleaned[name] = self.inputs[name].clean(\n                    value, self.program, self.argument_lines.get(name)\n                )", "                cleaned[name] = self.inputs[name].clean(value, self.program)", {"C11": "clean-line"}),
    ("lexer-reset-removed", PSR, "        self.lexer.lineno = 1\n\n", "", {"C11": "counter-reset"}),
    ("newline-len-back", PSR, "        t.lexer.lineno += (\n            t.value.count(\"\\n\") + t.value.count(\"\\r\") - t.value.count(\"\\r\\n\")\n        )", "        t.lexer.lineno += len(t.value)", {"C11": "t_newline::terminator-count"}),
    ("node-line-of-third-symbol", PSR, "p[0] = ArgumentNode(p[1], p[3], p.lineno(1))", "p[0] = ArgumentNode(p[1], p[3], p.lineno(3))", {"C11": "p_argument::node-line"}),
    ("run-before-prepass", PRG, "        # Build dependency lookup\n", "        for command in self.commands.values():\n            command.run()\n\n        # Build dependency lookup\n", {"C12": "validation-pre-pass"}),
    ("duplicate-gate-removed", PRG, "        if result_name in self.commands:\n            raise DuplicateResult(result_name, lineno=lineno)\n\n", "", {"C12": "gate(DuplicateResult)"}),
    ("fuzzy-check-swapped", PAR, "        if self.is_fuzzy is True and not getattr(value, \"is_fuzzy\", False):\n            raise ResultNotFuzzy", "        if self.is_fuzzy is True and getattr(value, \"is_fuzzy\", False):\n            raise ResultNotFuzzy", {"C12": "decision-table"}),
    ("table-entry-misspelled", U, '"COPYFIELD": "Copy",', '"COPYFIELD": "Cpy",', {"C16": "EEMS_COMMANDS[COPYFIELD]"}),
    ("prefix-filter-back", PRG, "                info.module == lib or info.module.startswith(lib + \".\")\n", "                info.module.startswith(lib)\n", {"C19": "library-membership"}),
    ("comma-in-plain-string", PSR, 't_PLAIN_STRING = r"[^\\#\\:\\,\\=\\(\\)\\[\\]\\"\\\'\\r\\n]+"', 't_PLAIN_STRING = r"[^\\#\\:\\=\\(\\)\\[\\]\\"\\\'\\r\\n]+"', {"C10": "t_PLAIN_STRING::excludes(',')"}),
    ("trailing-comma-production-removed", PSR, "        elements : element COMMA\n                 | element\n", "        elements : element\n", {"C10": "grammar(elements)::layout-forms"}),
    ("tail-before-head", PSR, "        elements : element COMMA elements\n        \"\"\"\n\n        p[0] = [p[1]] + p[3]", "        elements : element COMMA elements\n        \"\"\"\n\n        p[0] = p[3] + [p[1]]", {"C10": "p_elements::threads-values"}),
    ("escape-order-swapped", PRG, 'replace("\\\\", "\\\\\\\\").replace(\'"\', \'\\\\"\')', 'replace(\'"\', \'\\\\"\').replace("\\\\", "\\\\\\\\")', {"C15": "quoted"}),
    ("csv-line-offset", CSVIO, "field_name, i + 2", "field_name, i + 1", {"C17": "error-line"}),
    ("netcdf-union-mask-dropped", NCIO, "            for arr in arrays[1:]:\n                mask |= arr.mask\n", "", {"C18": "union-mask"}),
    ("output-declaration-removed", CSVIO, "    output = params.BooleanParameter()\n\n    def execute(self, **kwargs):\n        commands = kwargs[\"OutFieldNames\"]", "    def execute(self, **kwargs):\n        commands = kwargs[\"OutFieldNames\"]", {"C12": "EEMSWrite::declares-output"}),
    # ---- rules added in the second and third seeding rounds (each keeps a positive example alive)
    ("validation-attribute-recursion", B, '    def execute(self, **kwargs):\n        return kwargs["InFieldName"].result.copy()', '    @property\n    def is_fuzzy(self):\n        source = self.program.commands.get(self.get_argument_value("InFieldName"))\n        return getattr(source, "is_fuzzy", False)\n\n    def execute(self, **kwargs):\n        return kwargs["InFieldName"].result.copy()', {"C14": "computed(is_fuzzy)"}),
    ("handler-reads-missing-attribute", CMD, "                if isinstance(exc, MPilotError):\n                    raise", "                if isinstance(exc, MPilotError):\n                    if exc.lineno is None:\n                        exc.lineno = self.lineno\n                    raise", {"C13": "handler(exc).lineno"}),
    ("source-stripped-before-lexing", PSR, "return self.parser.parse(source, lexer=self.lexer, tracking=True)", "return self.parser.parse(source.strip(), lexer=self.lexer, tracking=True)", {"C11": "text-passed-on-unchanged"}),
    ("clamp-between-thresholds", F, "        result += y1\n\n        return result", "        result += y1\n\n        return insure_fuzzy(result, y2, y1)", {"C08": "clamp-bounds-ordered"}),
    ("p_error-indexes-lines", PSR, '        if p:\n            raise SyntaxError("Syntax error', '        if p:\n            line = self.lexer.lexdata.split("\\n")[p.lineno - 1]\n            raise SyntaxError(line + "Syntax error', {"C13": "no-partial-operation", "C10": "no-partial-operation"}),
    ("list-cleaned-in-place", PAR, "        return [\n            self.value_type.clean(\n                item.value if isinstance(item, Argument) else item, program, lineno\n            )\n            for item in value\n        ]", "        for i, item in enumerate(value):\n            value[i] = self.value_type.clean(\n                item.value if isinstance(item, Argument) else item, program, lineno\n            )\n        return value", {"C01": "elementwise", "C20": "ListParameter.clean::pure"}),
    ("missing-value-truthiness", CSVIO, "        if fill_value is not None:\n            data.mask = mask", "        if fill_value:\n            data.mask = mask", {"C03": "zero-is-a-value", "C17": "zero-is-a-value", "C02": "zero-is-a-value"}),
    ("zero-weight-skipped", F, "        for weight, arr in zip(weights[1:], arrays[1:]):\n            result += arr * weight", "        for weight, arr in zip(weights[1:], arrays[1:]):\n            if weight == 0:\n                continue\n            result += arr * weight", {"C06": "union-of-masks", "C03": "FuzzyWeightedUnion.execute::return#1"}),
    ("astype-nocopy-then-inplace", B, "        return sum(arrays) / len(arrays)", "        result = arrays[0].astype(float, copy=False)\n        for arr in arrays[1:]:\n            result += arr\n        result /= len(arrays)\n        return result", {"C09": "Mean.execute::inplace"}),
    ("raw-argument-overwritten", PRG, "                        argument.value, self, lineno=argument.lineno\n                    )\n", "                        argument.value, self, lineno=argument.lineno\n                    )\n                    argument.value = value\n", {"C20": "raw-argument-overwritten"}),
    ("cells-parsed-with-data-type", CSVIO, "values.append(float(row[idx]))", 'values.append(kwargs.get("DataType", float)(row[idx]))', {"C17": "cell-parse"}),
    ("positive-check-after-cast", NCIO, "and data.min() < 0:", "and numpy.ma.array(data, dtype=data_type).min() < 0:", {"C18": "positive-check-on-file-values"}),
    ("iter-modules-loader", PRG, "for info, name, _ in pkgutil.walk_packages(", "for info, name, _ in pkgutil.iter_modules(", {"C19": "loads-what-the-filter-admits"}),
    ("conversion-per-node", PRG, "program_node = ProgramNode(convert_eems2_commands(program_node.commands), 3)", "program_node = ProgramNode([n if n.result_name else convert_eems2_commands([n])[0] for n in program_node.commands], 3)", {"C16": "whole-file"}),
    ("string-token-excludes-newlines", PSR, """@TOKEN(r'("(\\\\.|[^"\\\\])*")|(\\'(\\\\.|[^\\'\\\\])*\\')')""", """@TOKEN(r'("(\\\\.|[^"\\\\\\r\\n])*")|(\\'(\\\\.|[^\\'\\\\\\r\\n])*\\')')""", {"C15": "read-back"}),
]

# behaviour-preserving rewrites: (id, file, old, new, [properties that must stay silent])
BENIGN = [
    ("early-return-guard", CMD, "    def run(self):\n        if not self.is_finished:\n", "    def run(self):\n        if self.is_finished:\n            return\n        if True:\n", ["C01", "C14", "C13"]),
    ("temp-before-memo-store", CMD, "                self._result = self.execute(\n                    **self.validate_params(\n                        {arg.name: arg.value for arg in self.arguments}\n                    )\n                )", "                value = self.execute(\n                    **self.validate_params(\n                        {arg.name: arg.value for arg in self.arguments}\n                    )\n                )\n                self._result = value", ["C01", "C14", "C13"]),
    ("locals-renamed-Sum", B, "        result = arrays[0].copy()\n\n        for arr in arrays[1:]:\n            result = result + arr\n\n        return result", "        total = arrays[0].copy()\n\n        for item in arrays[1:]:\n            total = total + item\n\n        return total", ["C02", "C03", "C05", "C07", "C09"]),
    ("temp-before-return-FuzzyNot", F, "        return insure_fuzzy(result, FUZZY_MIN, FUZZY_MAX)\n\n\nclass CvtFromFuzzy", "        clamped = insure_fuzzy(result, FUZZY_MIN, FUZZY_MAX)\n        return clamped\n\n\nclass CvtFromFuzzy", ["C04", "C03", "C09", "C02", "C08"]),
    ("extra-copy", B, "        return a - b", "        return (a - b).copy()", ["C02", "C03", "C05", "C07", "C09"]),
    ("fresh-inplace-is-fine", F, "        result = -arr\n", "        result = -arr\n        result *= 1.0\n", ["C09", "C04", "C03", "C08"]),
    ("statements-reordered", B, "        start = kwargs.get(\"StartVal\", 0)\n        end = kwargs.get(\"EndVal\", 1)\n\n        # As floats", "        end = kwargs.get(\"EndVal\", 1)\n        start = kwargs.get(\"StartVal\", 0)\n\n        # As floats", ["C02", "C03", "C08", "C05"]),
    ("blank-lines-shift", PRG, "class Program(object):", "\n\n\n# a comment that shifts every line\nclass Program(object):", ["C01", "C11", "C12", "C14", "C15", "C19"]),
    ("membership-equivalent-form", PRG, "                info.module == lib or info.module.startswith(lib + \".\")\n", "                (info.module + \".\").startswith(lib + \".\")\n", ["C19"]),
    ("helper-extracted-validate", MIX, "        if not arrays:\n            raise EmptyInputs(lineno)\n", "        if len(arrays) == 0:\n            raise EmptyInputs(lineno)\n", ["C05", "C07"]),
    ("lineno-keyword", PRG, "            raise CommandDoesNotExist(node.command, node.lineno)", "            raise CommandDoesNotExist(node.command, lineno=node.lineno)", ["C11", "C12", "C13"]),
    ("leaf-filter-inverted-with-sweep", PRG, "            if not dependents.get(command.result_name)\n", "            if dependents.get(command.result_name)\n", ["C01", "C14", "C12"]),
    ("single-input-shortcut", B, "        result = arrays[0].copy()\n\n        for arr in arrays[1:]:\n            result = result + arr\n", "        if len(arrays) == 1:\n            return arrays[0].copy()\n\n        result = arrays[0].copy()\n\n        for arr in arrays[1:]:\n            result = result + arr\n", ["C02", "C03", "C05", "C07", "C09"]),
    ("count-lf-only-pattern", PSR, "        t.lexer.lineno += t.value.count(\"\\n\")\n        try:", "        t.lexer.lineno += t.value.count(\"\\n\") + 0 * 1\n        try:", []),
]


def apply_edit(tree, file, old, new):
    p = os.path.join(tree, file)
    s = open(p).read()
    if s.count(old) != 1:
        return False
    open(p, "w").write(s.replace(old, new))
    return True


def run_variant(v, breaking, repo="/repo"):
    vid, file, old, new, exp = v
    tree = make_copy(repo)
    try:
        if not apply_edit(tree, file, old, new):
            return vid, "n/a", "anchor text not found exactly once in %s" % file
        # still compiles?
        r = subprocess.run(["/venv/bin/python", "-c", "import ast,sys; ast.parse(open(sys.argv[1]).read())", os.path.join(tree, file)], capture_output=True, text=True)
        if r.returncode != 0:
            return vid, "n/a", "edited file does not parse"
        props = list(exp) if exp else []
        if breaking and not props:
            props = ["C%02d" % i for i in range(1, 21)]
        out = []
        ok = True
        for prop in props:
            _, rc, cons, err = run_check(prop, tree)
            if breaking:
                frag = exp.get(prop) if isinstance(exp, dict) else None
                hit = [c for c, m in cons if frag is None or frag in c]
                if isinstance(exp, dict) and exp:
                    if rc != 1 or not hit:
                        ok = False
                        out.append("%s: expected VIOLATION at *%s*, got exit %d %s %s" % (prop, frag, rc, [c for c, _ in cons][:2], err[:1]))
                    else:
                        out.append("%s: caught at %s" % (prop, hit[0].split(" ")[-1]))
                else:
                    if rc == 1:
                        out.append("%s: caught at %s" % (prop, cons[0][0].split(" ")[-1] if cons else "?"))
            else:
                if rc != 0:
                    ok = False
                    out.append("%s: FALSE ALARM exit %d %s %s" % (prop, rc, [c for c, _ in cons][:2], err[:1]))
        if breaking and not (isinstance(exp, dict) and exp):
            ok = any("caught" in o for o in out)
            if not ok:
                out.append("no check fired")
        return vid, "ok" if ok else "FAIL", "; ".join(out)
    finally:
        shutil.rmtree(tree, ignore_errors=True)


def run_for_property(prop, jobs=16, repo="/repo"):
    """variants relevant to one property: breaking ones that expect `prop`, benign ones that list it (checked for `prop` only)"""
    todo = []
    for v in BREAK:
        if isinstance(v[4], dict) and prop in v[4]:
            todo.append(((v[0], v[1], v[2], v[3], {prop: v[4][prop]}), True))
    for v in BENIGN:
        if prop in v[4]:
            todo.append(((v[0], v[1], v[2], v[3], [prop]), False))
    if not todo:
        return []
    with ThreadPoolExecutor(max_workers=jobs) as ex:
        res = list(ex.map(lambda vb: run_variant(vb[0], vb[1], repo), todo))
    return [("breaking" if b else "benign",) + r for (v, b), r in zip(todo, res)]


def main(argv):
    jobs = 16
    only = None
    if "--jobs" in argv:
        jobs = int(argv[argv.index("--jobs") + 1])
    if "--only" in argv:
        only = argv[argv.index("--only") + 1]
    todo = [(v, True) for v in BREAK] + [(v, False) for v in BENIGN]
    if only:
        todo = [(v, b) for v, b in todo if only in v[0]]
    with ThreadPoolExecutor(max_workers=jobs) as ex:
        res = list(ex.map(lambda vb: run_variant(*vb), todo))
    bad = 0
    for (v, b), (vid, st, msg) in zip(todo, res):
        print("%-8s %-4s %-40s %s" % ("breaking" if b else "benign", st, vid, msg))
        if st == "FAIL":
            bad += 1
    na = sum(1 for _, st, _ in res if st == "n/a")
    print("variants: %d applied, %d not applicable, %d misbehaved" % (len(res) - na, na, bad))
    return 1 if bad else 0


if __name__ == "__main__":
    sys.exit(main(sys.argv[1:]))
