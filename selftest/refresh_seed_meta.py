#!/usr/bin/env python3
"""Re-record, for every filed seed, which checks fire on it with the rules as they are now.

usage: selftest/refresh_seed_meta.py [--jobs N] [seed id ...]
Only `checks_that_fire`, `checks_that_cannot_decide` and `caught_by_target_property_check` of seeded/<id>/meta.json are rewritten
(what was confirmed when the seed was filed - tests green, demo discriminates - stays as recorded).  Scratch copies live outside
/repo and /verif and are removed.  Not a registered check: book-keeping for seeded/README.md.
"""
import json
import os
import shutil
import subprocess
import sys
from concurrent.futures import ThreadPoolExecutor

HERE = os.path.dirname(os.path.abspath(__file__))
sys.path.insert(0, HERE)
from trypatch import ALL, make_copy, run_check  # noqa: E402

VERIF = os.path.dirname(HERE)


def one(seed):
    d = os.path.join(VERIF, "seeded", seed)
    mp = os.path.join(d, "meta.json")
    if not os.path.isfile(mp):
        return seed, "no meta"
    meta = json.load(open(mp))
    tree = make_copy()
    try:
        r = subprocess.run(["patch", "-p1", "-s", "-f", "-i", os.path.join(d, "patch.diff")], cwd=tree, capture_output=True, text=True)
        if r.returncode != 0:
            return seed, "patch no longer applies"
        fired, errors = {}, {}
        for p in ALL:
            _, rc, cons, err = run_check(p, tree)
            if rc == 1:
                fired[p] = [c.split(" ", 2)[0] + " " + (c.split(" ", 2)[2] if len(c.split(" ", 2)) > 2 else "") for c, _ in cons]
            elif rc == 2:
                errors[p] = err[:1]
        changed = fired != meta.get("checks_that_fire") or errors != meta.get("checks_that_cannot_decide")
        meta["checks_that_fire"] = fired
        meta["checks_that_cannot_decide"] = errors
        if "breaks_property" in meta and meta.get("caught_by_target_property_check") is not None:
            meta["caught_by_target_property_check"] = meta["breaks_property"] in fired
        with open(mp, "w") as f:
            json.dump(meta, f, indent=1)
        return seed, ("changed: " if changed else "same: ") + ",".join("%s[%s]" % (k, " ".join(sorted({x.split(" ")[0] for x in v}))) for k, v in sorted(fired.items()))
    finally:
        shutil.rmtree(tree, ignore_errors=True)


def main(argv):
    jobs = 4
    if "--jobs" in argv:
        i = argv.index("--jobs")
        jobs = int(argv[i + 1])
        del argv[i:i + 2]
    seeds = argv or sorted(x for x in os.listdir(os.path.join(VERIF, "seeded")) if os.path.isdir(os.path.join(VERIF, "seeded", x)))
    with ThreadPoolExecutor(jobs) as ex:
        for seed, msg in ex.map(one, seeds):
            print("%-6s %s" % (seed, msg))


if __name__ == "__main__":
    main(sys.argv[1:])
