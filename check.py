#!/venv/bin/python
"""Driver: ./check <Cnn> [--tier quick|thorough] [--replay <path>]

Exit 0: every obligation discharged (known findings echoed as KNOWN-FINDING lines).
Exit 1: a line `VIOLATION property=<id> replay=<path>` was printed.
Exit 2: ANALYSIS-ERROR (cannot decide) — never a silent pass, never a violation claim.
"""
import importlib
import json
import os
import sys
import traceback

HERE = os.path.dirname(os.path.abspath(__file__))
sys.path.insert(0, HERE)
sys.dont_write_bytecode = True

from engine.report import AnalysisError, Ctx  # noqa: E402


def selftest(ctx, prop):
    """thorough tier: replay the variant catalogue for this property on scratch copies of the current tree"""
    known = {(k["rule"], k["construct"]) for k in ctx.load_known()}
    if any((not o.ok) and (o.rule, o.construct) not in known for o in ctx.obs):
        ctx.extra["selftest"] = "skipped: the tree under analysis already violates this property"
        return
    sys.path.insert(0, os.path.join(HERE, "selftest"))
    import variants

    res = variants.run_for_property(prop, repo=ctx.repo)
    applied = [r for r in res if r[2] != "n/a"]
    bad = [r for r in res if r[2] == "FAIL"]
    ctx.extra["selftest"] = {
        "variants_applied": len(applied),
        "not_applicable": len(res) - len(applied),
        "misbehaved": len(bad),
        "results": ["%s %s %s: %s" % r for r in res],
    }
    ctx.count("selftest_variants_applied", len(applied))
    import corpus

    cres = corpus.run_for_property(prop, repo=ctx.repo)
    cbad = [r for r in cres if r[2] == "FAIL"]
    ctx.extra["selftest"]["corpus_replayed"] = len([r for r in cres if r[2] != "n/a"])
    ctx.extra["selftest"]["corpus_not_applicable"] = len([r for r in cres if r[2] == "n/a"])
    ctx.extra["selftest"]["corpus_misbehaved"] = ["%s %s: %s" % (r[0], r[1], r[3]) for r in cbad]
    ctx.extra["selftest"]["corpus_seeded"] = ["%s %s %s" % (r[1], r[2], r[3]) for r in cres if r[0] == "seeded"]
    bad = bad + [("corpus", r[1], r[2], r[3]) for r in cbad]
    if bad:
        raise AnalysisError("self-test of the analyser failed (an analyser defect, not a property verdict): %s" % "; ".join("%s %s" % (r[1], r[3]) for r in bad[:3]))


def main(argv):
    if len(argv) < 2 or argv[1] in ("-h", "--help"):
        print(__doc__)
        return 2
    prop = argv[1]
    tier = os.environ.get("VERIF_TIER") or "quick"
    replay = None
    repo = os.environ.get("VERIF_REPO", "/repo")
    i = 2
    while i < len(argv):
        if argv[i] == "--tier" and i + 1 < len(argv):
            if not os.environ.get("VERIF_TIER"):
                tier = argv[i + 1]
            i += 2
        elif argv[i] == "--replay" and i + 1 < len(argv):
            replay = argv[i + 1]
            i += 2
        elif argv[i] == "--repo" and i + 1 < len(argv):
            repo = argv[i + 1]
            i += 2
        else:
            print("unknown argument %s" % argv[i])
            return 2
    if tier not in ("quick", "thorough"):
        tier = "quick"
    try:
        seed = int(os.environ.get("VERIF_SEED", "0"))
    except ValueError:
        seed = 0
    ctx = Ctx(prop, tier=tier, seed=seed, repo=repo)
    try:
        mod = importlib.import_module("rules.%s" % prop)
    except ImportError as ex:
        print("ANALYSIS-ERROR property=%s no rule module: %s" % (prop, ex))
        return 2
    err = None
    try:
        from engine.index import Index

        idx = Index(repo)
        mod.run(ctx, idx)
        # the array analyser's soft reservations: a construct it walked through with a model too coarse for it.  A violation found
        # by a rule stands (and outranks this); otherwise the property is not decided.
        from rules import arrayrules as _R
        for _d, _r in (_R._cache.get(id(idx)) or {}).values():
            if _r.soft_undecided:
                raise AnalysisError(_r.soft_undecided[0])
        if tier == "thorough" and hasattr(mod, "thorough"):
            mod.thorough(ctx, idx)
        if tier == "thorough" and not os.environ.get("VERIF_NO_EVIDENCE"):
            selftest(ctx, prop)
    except AnalysisError as ex:
        err = ex
    except Exception as ex:  # a crash of the analyser is "cannot decide", never a verdict
        traceback.print_exc()
        err = "%s: %s" % (type(ex).__name__, ex)
    status = ctx.finish(error=err)
    if replay:
        try:
            with open(replay) as f:
                want = json.load(f)
            print("replay of %s / %s:" % (want.get("rule"), want.get("construct")))
            for o in ctx.obs:
                if o.rule == want.get("rule") and o.construct == want.get("construct"):
                    print(json.dumps(o.as_dict(), indent=1))
        except Exception as ex:
            print("cannot read replay file: %s" % ex)
    return status


if __name__ == "__main__":
    sys.exit(main(sys.argv))
