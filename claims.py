# Data for tools_manifest.py (exec'd): CLAIMS, NA, ENGINES, FIX_COMMITS
FIX_COMMITS = ["14a7bc4", "34fd9b1"]
ENGINES = [
    {"name": "A-index", "path": "engine/index.py, engine/tables.py", "serves_properties": ["C01", "C14"], "kind_free_text": "package index: imports, classes, C3 MRO, constants, declaration tables, call graph"},
    {"name": "B-cfg", "path": "engine/cfg.py", "serves_properties": ["C01", "C14"], "kind_free_text": "event-level CFG with exceptional edges, dominance, must-pass-through, path enumeration, typestate, reaching definitions"},
]
CLAIMS["C01"] = {
    "technique": "typestate + dominance on the CFG of Command.run/result, who-may-write/who-may-call over the package, must-pass-through pull completeness of 36 execute bodies, def-use check of Program.run's leaf selection",
    "text": "Decides the whole exactly-once argument structurally: memo guard dominates the only execute call (C01.a), only Command.run writes flag/memo (C01.b), nothing else calls execute (C01.c), result returns the memo only after run() (C01.d), every declared reference is pulled on every path (C01.e), Program.run starts every possibly-unconsumed command (C01.f), list references are all cleaned (C01.g). All paths, all 36 command classes; no execution.",
    "note": "Conditional on C14 (acyclic graphs) and C20.d (clean is effect-free), reported under their ids. six.raise_from/sys.exit are no-return by table.",
}
CLAIMS["C14"] = {
    "technique": "call-graph reachability of the raise, path-enumerated typestate of the re-entrancy guard in Command.run, coverage-shape analysis of Program.run",
    "text": "Decides the property structurally: RecursiveModelStructure is an MPilotError raised on a call path from Program.run (C14.a); on every CFG path of Command.run the in-progress flag is tested false and set before execute, and the already-running outcome raises without reaching execute (C14.b); an unfiltered loop over the command table that starts every command lies on every path to Program.run's normal exit (C14.c).",
    "note": "Recursion depth is bounded by the guard cutting the run->execute->result->run cycle; Python's stack behaviour is modelled, not run.",
}
