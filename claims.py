# Data for tools_manifest.py (exec'd): CLAIMS, NA, ENGINES, FIX_COMMITS
FIX_COMMITS = ["14a7bc4", "34fd9b1", "f8f4ffb", "61fde54", "7a81c99", "eafa42d", "5421546", "4559052", "c41828a", "7b438d4", "4a48516", "61b5e06", "42978b1", "eea3f8e", "9d23db9", "daf7731", "0f1f996", "7d5224d", "eade19f", "93aedf4", "d3cd9a8"]
ENGINES = [
    {"name": "A-index", "path": "engine/index.py, engine/tables.py", "serves_properties": ["C01", "C14"], "kind_free_text": "package index: imports, classes, C3 MRO, constants, declaration tables, call graph"},
    {"name": "C-arrays", "path": "engine/arrays.py", "serves_properties": ["C02", "C03", "C04", "C05", "C06", "C07", "C08", "C09"], "kind_free_text": "abstract interpreter over the 36 execute bodies and helpers: kind, alias, mask coverage, value dependence, hidden-payload flow, shape, dtype, clamp range, layer selection; closed numpy vocabulary"},
    {"name": "E-regexlang", "path": "engine/regexlang.py, engine/grammar.py", "serves_properties": ["C10", "C11", "C15"], "kind_free_text": "token regex -> NFA -> DFA over an exact alphabet partition (inclusion, intersection, containment with shortest witnesses); PLY rules and productions extracted as data; Earley recogniser and LALR(1) table (yacc conflict resolution) built from the extracted productions"},
    {"name": "D-effects", "path": "engine/effects.py", "serves_properties": ["C13", "C20"], "kind_free_text": "value-kind narrowing with exhaustive choice enumeration over the Parameter.clean methods: escape sets, return kinds, identity paths, effects; closed operation table"},
    {"name": "B-cfg", "path": "engine/cfg.py", "serves_properties": ["C01", "C14"], "kind_free_text": "event-level CFG with exceptional edges, dominance, must-pass-through, path enumeration, typestate, reaching definitions"},
]
CLAIMS["C01"] = {
    "technique": "typestate + dominance on the CFG of Command.run/result, who-may-write/who-may-call over the package, must-pass-through pull completeness of 36 execute bodies, def-use check of Program.run's leaf selection",
    "text": "Decides the whole exactly-once argument structurally: memo guard dominates the only execute call (C01.a), only Command.run writes flag/memo (C01.b), nothing else calls execute (C01.c), result returns the memo only after run() (C01.d), every declared reference is pulled on every path (C01.e), Program.run starts every possibly-unconsumed command (C01.f), list references are all cleaned (C01.g). All paths, all 36 command classes; no execution.",
    "note": "Conditional on C14 (acyclic graphs) and C20.d (clean is effect-free), reported under their ids. six.raise_from/sys.exit are no-return by table.",
}
CLAIMS["C14"] = {
    "technique": "call-graph reachability of the raise, path-enumerated typestate of the re-entrancy guard in Command.run, coverage-shape analysis of Program.run",
    "text": "Decides the property structurally: RecursiveModelStructure is an MPilotError raised on a call path from Program.run (C14.a); on every CFG path of Command.run the in-progress flag is tested false and set before execute, and the already-running outcome raises without reaching execute (C14.b); an unfiltered loop over the command table that starts every command lies on every path to Program.run's normal exit (C14.c).",
    "note": "Recursion depth is bounded by the guard cutting the run->execute->result->run cycle; Python's stack behaviour is modelled, not run.",
}

ARR_NOTE = "Numeric content (that a formula is the documented one) is not decided. numpy behaviour enters only through the axioms A1-A33; an operation outside the analyser's vocabulary is ANALYSIS-ERROR (exit 2)."
CLAIMS["C02"] = {"engine": "C-arrays", "technique": "call-graph reachability (no clean at load), effect whitelist and return-kind abstract interpretation over 36 execute bodies",
    "text": "Decides order-independence structurally: Parameter.clean is unreachable from loading and the command table is looked up by name only in ResultParameter.clean (C02.a); execute bodies have no self/global/file effects outside I/O commands (C02.b); Metadata is never read (C02.c); every Data producer returns a MaskedArray given masked inputs, so any data result can feed any data input (C02.d). Equality with the mathematical evaluation is not decided.", "note": ARR_NOTE}
CLAIMS["C03"] = {"engine": "C-arrays", "technique": "abstract interpretation: mask-coverage (must) vs value-dependence and hidden-payload (may) sets at every return of every data command",
    "text": "Decides the whole property modulo the numpy axioms: at each of the return sites D(ret) ⊆ M(ret), Pc(ret) ⊆ M(ret), Pg(ret)=∅; insure_fuzzy keeps the mask (summary from its body); readers store a mask derived from data == missing-value on the returned array. All paths; loops over input lists summarised universally.", "note": ARR_NOTE}
CLAIMS["C04"] = {"engine": "C-arrays", "technique": "abstract interpretation of the clamp range: comparison-indexed stores in insure_fuzzy establish bounds; every fuzzy return must carry Clamped(-1,1)",
    "text": "Decides the property for non-NaN arithmetic: every normal return of the 14 fuzzy producers is the value of a two-sided clamp with constant bounds -1 and 1 with no arithmetic after it; insure_fuzzy bounds both sides by its own arguments; array divisions in fuzzy producers have a masked operand.", "note": ARR_NOTE + " NaN from scalar arithmetic on extreme parameters is outside the claim."}
CLAIMS["C05"] = {"engine": "C-arrays", "technique": "abstract shape domain (Same/Stacked/RankDependent/Flat) and equivariance classification of every array operation; CFG dominance for the same-shape precondition",
    "text": "Decides the property modulo the numpy axioms: every return of a data command has shape Same for every rank; only pointwise, symmetric-scalar and layer-axis operations touch data-shaped values; validate_array_shapes compares every shape and is called on the whole list before any array operation.", "note": ARR_NOTE}
CLAIMS["C06"] = {"engine": "C-arrays", "technique": "value-dependence, layer-selection and guard facts from the abstract interpreter over the 7 operator bodies",
    "text": "Decides only the structural clauses: every input is used (C06.a), inputs play symmetric roles / weights stay aligned (C06.b), FuzzySelectedUnion averages the right end of the ascending sort with k itself, checked against the input count (C06.c), FuzzyXOr reads the two truest layers and guards its quotient (C06.d). The formulas themselves, And<=Union<=Or and the involution are statements about numbers and are not decided.", "note": ARR_NOTE}
CLAIMS["C07"] = {"engine": "C-arrays", "technique": "dtype-kind abstract domain at in-place sites, CFG dominance of validation gates, operand-order facts",
    "text": "Decides dtype/order independence (no dtype-pinned accumulation, C07.a), the specific-error gates and their dominance over arithmetic (C07.b), masked division (C07.c), completeness, symmetry and operand order (C07.d) for the ten arithmetic commands. The arithmetic definitions themselves are not decided.", "note": ARR_NOTE}
CLAIMS["C08"] = {"engine": "C-arrays", "technique": "delegation/rename-table check on super().execute kwargs, def-use of sorted(zip()), guard dominance on the CFG, dtype domain",
    "text": "Decides: each CvtToFuzzyX is insure_fuzzy(NormalizeX.execute(renamed kwargs, -1, 1)) (C08.a); control points sorted as pairs (C08.b); the reference (command, error) guards exist and dominate what they protect (C08.c); no dtype-pinned arithmetic on integer data (C08.d); data input used (C08.e); fuzzy results floating (C08.f). The mappings themselves are numeric and not decided.", "note": ARR_NOTE}
CLAIMS["C09"] = {"engine": "C-arrays", "technique": "flow-sensitive may-alias analysis: alias set of the target at every in-place site of every execute body and inlined helper",
    "text": "Decides the property for built-in consumers: at every in-place site (augmented assignment, subscript/mask store, mutating method, out=, helper writing its argument) the target's may-alias set contains no input and no view of an input; insure_fuzzy's write/return summary is computed, not trusted; nothing outside execute writes through .result.", "note": ARR_NOTE}

CLAIMS["C16"] = {"engine": "A-index", "technique": "table agreement between EEMS_COMMANDS and the command tables of both library sets; AST shape facts of convert_eems2_commands and the detection guard",
    "text": "Decides the whole property except EEMS 2.0 argument semantics: every mapped name exists in both built-in library sets (exact), the rewriting keeps name/result-name/argument/line facts, and detection is version==2 or any table key with the flag set only in the result-less production. Two unmapped-target entries are listed as known findings.", "note": "No EEMS 2.0 specification exists in the repository, so argument-level equivalence is not decided."}
CLAIMS["C19"] = {"engine": "B-cfg", "technique": "recognised-form classification of the library membership predicate, CFG dominance of the duplicate gate, who-may-write over the registry and lookup attributes",
    "text": "Decides the whole property: membership is module equality or dotted prefix (C19.a), the duplicate-name raise dominates the lookup store (C19.b), the registry is add-only in CommandMeta.__new__ and the lookup is per-instance and read only through find_command_class (C19.c). An unrecognised membership form is ANALYSIS-ERROR, never a guess.", "note": ""}

CLAIMS["C12"] = {"engine": "B-cfg", "technique": "CFG dominance of the load-time and run-time gates, path-enumerated decision table of ResultParameter.clean against a specification table, call-graph effect reachability, declaration-table checks (thorough: 2 x 34 x 35 producer/consumer matrix)",
    "text": "Decides gates and ordering (C12.a, C12.b), the reference decision table (C12.c: every feasible path of ResultParameter.clean agrees with the specification rows), absence of effects before rejection (C12.d), checkable declarations (C12.e) and error payloads (C12.f). Per-value kind checks beyond the cleaners' kinds are C20's.", "note": "The specification table is DESIGN.md appendix A.4."}

CLAIMS["C10"] = {"engine": "E-regexlang", "technique": "regular-language inclusion/intersection/containment on the token DFAs, production and p[i] table agreement, layout forms derived by the extracted grammar (Earley) and accepted by the LALR(1) table generated from it, recognised-form checks of the string action",
    "text": "Decides table agreement (C10.a), delimiter exclusion with witnesses (C10.b), number-token languages against int()/float() (C10.c), value threading and order of every action (C10.d), layout productions (C10.e), lossy text reconstruction (C10.f) and error callbacks (C10.g). Equality of the parse with the generating AST for every rendering quantifies over texts and is not decided; three lossy-reconstruction defects of the unquoted-string productions are listed as known findings.", "note": "Trusts PLY's documented rule priority and LALR table construction."}
CLAIMS["C11"] = {"engine": "E-regexlang", "technique": "CFG must-pass-through for the counter reset, DFA containment of LF per token with recognised increment forms, first-symbol index of every p.lineno, line-carrying-argument check on 21 raise sites and every clean() call",
    "text": "Decides the whole mechanism chain, trusting PLY's bookkeeping: counter reset on every path to the parse call with lexer= and tracking=True (C11.a), terminators counted exactly once including inside tokens that can contain LF (C11.b), nodes take the line of their first symbol (C11.c), the line is threaded from nodes to arguments, commands and clean() calls (C11.d), every load/validation raise carries a line of the offending object (C11.e), the CLI marks that line of the very text it parsed (C11.f).", "note": "PLY 3.11 lineno semantics (DESIGN A.2) are trusted."}

CLAIMS["C13"] = {"engine": "D-effects", "technique": "exception-escape analysis by kind narrowing over 10 cleaners x 11 raw kinds, CFG shape of Command.run's and the CLI's handlers, explicit-raise closure over the call graph, token-language inclusion for numeric conversions, constructor-signature agreement for every error class",
    "text": "Decides the property over the modelled operations: cleaners are total (C13.a); Command.run wraps everything non-MPilot and every explicit raise reachable from the load/run boundary is SyntaxError or an MPilotError (C13.b); lexer/parser callbacks cannot leak other types (C13.c); every error class and raise site constructs (C13.d); the CLI handler prints and exits non-zero on every path (C13.e). Exceptions raised inside third-party code on well-typed arguments are outside the claim.", "note": "Engine D's operation table is closed and listed in engine/effects.py."}
CLAIMS["C20"] = {"engine": "D-effects", "technique": "kind narrowing with exhaustive enumeration of choice sequences per (parameter class, raw kind): return kinds, identity paths, escape sets, effects; CFG checks of the documented conversions",
    "text": "Decides the property over the modelled kinds: total (C20.a), typed with int/float preserved and no discarded super().clean (C20.b), idempotent through identity paths (C20.c), pure (C20.d), documented conversions wired (C20.e). Numeric equality of int('...') conversions is not decided.", "note": "Raw kinds: int, float, bool, str, empty/non-empty list, tuple, dict, command; type and ndarray for the classes whose cleaned kinds they are."}

CLAIMS["C15"] = {"engine": "E-regexlang", "technique": "language inclusion of Python's numeric repr languages in the lexer's INT/FLOAT languages, recognised-form check of the string escaping chain at every quoted placeholder, kind-exhaustiveness and order checks on the serialiser's AST",
    "text": "Decides writer/reader agreement: printed ints/floats re-lex as numbers (C15.a), every quoted placeholder is fed through backslash-then-quote escaping and only references are bare (C15.b), nested lists / dicts / commands / types are serialised by kind (C15.c), commands and arguments keep order and names (C15.d). Structural equality of the reloaded program quantifies over programs and texts and is not decided. Two defects are known findings (exponent-form floats, type objects).", "note": "Reference repr languages are fixed by Python."}

CLAIMS["C17"] = {"engine": "C-arrays", "technique": "cleaned-domain table for kwargs defaults/comparisons, def-use of the constructor dtype and the missing-value mask, CFG dominance for the blank-row guard, line-arithmetic and order facts on the AST",
    "text": "Decides only: parameter defaults/comparisons lie in the cleaned domain (C17.a); requested dtype and data == MissingVal mask reach the returned array (C17.b); the reported error line is index + header rows + 1 - enumerate start and blank rows are skipped before indexing (C17.c); header and columns walk the same sequence (C17.d); nothing rounds or formats between arrays and writerows (C17.e). Bit-identical round trips, CSV quoting of names and the text written for missing cells are facts about csv/repr/file contents at run time and are not decided.", "note": "csv module behaviour is trusted."}
CLAIMS["C18"] = {"engine": "C-arrays", "technique": "cleaned-domain table, abstract-interpreter findings for self re-entry and array truthiness, constructor-signature agreement of the NetCDF errors, mask-coverage at every variable store, must-pass-through of the dimension copy steps",
    "text": "Decides only: parameter defaults/comparisons lie in the cleaned domain and the positive/fuzzy checks are keyed on the raw type name (C18.a); no self.result and no array truthiness (C18.b); NetCDF errors construct (C18.c); every data variable is stored with a mask covering all written results and the MissingValue mask lands on the returned array (C18.d); dimension, variable, attributes and coordinate values are copied on every path (C18.e). Round-trip equality through the netCDF4 library is not decided.", "note": "netCDF4 API behaviour is trusted."}


# rules added while strengthening the checks against the second and third rounds of independently seeded changes
ADDED = {
    "C01": "Also: the raw list of references is never overwritten with cleaned values (C01.g), and a leaf list built first and iterated afterwards is analysed like the inline form (C01.f).",
    "C02": "C02.f restates the mask-coverage / hidden-payload obligations of C03 and the readers' exact missing-value mask under this property, because a cell that should be missing but carries a value (or a value computed from fewer inputs than the graph names) is a wrong result.",
    "C03": "Readers: the mask is an equality comparison (not isclose) and numeric parameters are never tested by truthiness (C03.e); `continue`/`break` inside accumulation loops are followed, so a skipped layer loses its mask coverage.",
    "C06": "C06.b also rejects a layer buffer or accumulator whose element type is pinned to one input while the others are cast into it; C06.e uses the loop-exit-aware mask coverage.",
    "C08": "C08.i: a clamp never inverts - bounds are constants lo <= hi or the documented (lowest, highest) pair StartVal/EndVal.",
    "C09": "Aliasing constructors are modelled: astype(copy=False) may return its receiver, masked_*(copy=False) writes the receiver's mask buffer, getmaskarray returns the receiver's own mask (axioms A22-A24).",
    "C10": "C10.a follows the reserved-word idiom (a rule re-typing its token by lexeme) and requires the grammar to accept the re-typed token wherever it accepts the original; C10.g forbids partial operations in the error callbacks.",
    "C11": "C11.g: the text reaches the lexer unchanged (from_source -> Parser.parse -> PLY parse pass their parameter itself; strip/splitlines/slicing is a violation).",
    "C13": "C13.b also checks every attribute read on a caught error against every class the handler (narrowed by isinstance tests) admits; C13.c forbids partial operations (indexing, conversion) in t_error/p_error before the raise.",
    "C14": "C14.d: attributes that validation reads on referenced commands (is_fuzzy, output, ...) are never computed by following references to the same attribute of other commands.",
    "C15": "C15.b adds a language inclusion: every text the escaping chain can put between quotes is a single STRING token of the lexer.",
    "C16": "C16.b: the conversion refuses a command only when none of the three result-name sources exists; C16.c: once triggered the whole command list is converted.",
    "C17": "C17.c: cells are parsed with float() whatever the element type; C17.d recognises the transposition by role (transpose/.T/column_stack/zip(*)/column fill); C17.e rejects a table buffer typed after the first result only.",
    "C18": "C18.a: the positive-data test reads the values as they come from the file, not the converted array; C18.d: the union mask is never accumulated inside one of the results.",
    "C19": "C19.a also classifies part-wise zip comparisons (ancestor packages match) and requires the loader to walk what the filter admits (walk_packages, or a recursive listing).",
    "C20": "C20.d: an argument's raw value is assigned in the Argument constructors only (no cleaned value is stored back).",
}
ADDED4 = {
    "C01": "C01.e: no deep copy of the keyword arguments or of a reference (clones would run instead of the program's commands); C01.f now requires the unfiltered sweep.",
    "C03": "C03.e: a reader keeps the mask its source delivers (pseudo-token `file`) when it adds the missing-value mask.",
    "C04": "C04.d: no scalar quotient with a data-dependent divisor is combined with a whole array (nan survives the clamp).",
    "C06": "numpy.partition is modelled as leaving the layers unsorted.",
    "C07": "C07.d: every arithmetic result is cell-wise (shape of the inputs, missing wherever an input is, no positional operation).",
    "C08": "C08.a: the caller's own thresholds reach the base (no constants merged over them); C08.h: positions removed from a list in sequence do not shift.",
    "C10": "C10.f: literal_eval decoding is compared with the STRING language; grammar actions never rewrite a token value.",
    "C11": "C11.b: no line terminator sits in t_ignore and a bare CR is counted; C11.d: the per-argument line table is a fresh mapping of this command's own arguments.",
    "C13": "C13.c: int() on an unbounded digit token is guarded (Python's 4300-digit limit); C13.d: a line number is bound to the lineno parameter.",
    "C14": "C14.e restates pull completeness: the re-entry guard only fires on references that are actually read.",
    "C15": "C15.a: numbers are printed without a precision-limiting format; C15.b: grammar actions keep token values.",
    "C16": "C16.b: the converted result name is checked to be a name.",
    "C17": "C17.c: an explicit line counter is accepted alongside enumerate; C17.d: the header goes through the csv writer.",
    "C18": "C18.a: the rounding step covers every integral element type of the DataType table; C18.d: the variable's own mask is kept.",
    "C19": "C19.a: the loading loop loads every requested library.",
    "C20": "C20.e: no cleaner tests membership in a string literal (substring test).",
}
ADDED5 = {
    "C01": "C01.h: nothing that loading reaches consults the command table by a reference name (references resolve when the graph is evaluated, whatever the textual order).",
    "C02": "C02.g restates C01.h; C02.h: a command defined by delegation evaluates its definition on the caller's arguments and the fuzzy defaults (C08.a's table); C02.b: no execute uses module-level state that functions mutate (a cache kept between executions).",
    "C03": "C03.f: no command writes in place through an input's data or mask buffer (a result's missing cells are its own).",
    "C04": "C04.e: no consumer writes in place through an input, so a clamped fuzzy result cannot be rescaled after the fact.",
    "C05": "C05.c: the same-shape check compares the shapes themselves, not a projection of them (length-1 axes dropped, rank, size).",
    "C06": "C06.c: slices of the form [n-k:] / [:-(n-k)] are modelled (the latter is empty for k = n); a slice object chosen per branch keeps its conditions; C06.f: operators leave their operands alone.",
    "C07": "the join of an array with a number (an accumulator still at its initial 0 on some path) carries no mask coverage.",
    "C08": "C08.a: a fuzzy default is supplied for every optional threshold the base would default in normalised space; C08.j: a conversion leaves its field unchanged; C08.k: category lookup is by equality.",
    "C10": "C10.c: a number token that keeps its spelling must be converted by the action of `number` with the matching builtin (an int()/float() fallback turns over-long integers into inf); C10.f: escapes decoded by successive replacements are compared with one left-to-right pass over the same table on every short token body.",
    "C11": "C11.f: an excerpt printed by one loop is accepted when the marker test is `index of the printed line == ex.lineno - 1` (linear normal form).",
    "C12": "C12.a: every entry of the given arguments reaches the command (no value that counted as given is dropped); C12.c: `program is None` means the name cannot resolve; C12.g: a wrong kind answered with a foreign error is a violation too.",
    "C13": "C13.a: int() of a float may raise OverflowError/ValueError (inf, nan); C13.d: __str__ never joins or concatenates a payload that is not text by construction.",
    "C14": "C14.f: the finished flag is set only after execute's value was stored (never in finally/except), so a rejected cycle is found again on the next run.",
    "C15": "C15.b: the reader's decoding (extracted from t_STRING: codec pair or replacement table) undoes the writer's escaping on every value of up to 4 characters over a 7-letter alphabet; C15.c: the element serialiser recognises the wrapper the loader uses for nested lists.",
    "C16": "C16.c: named constants in the version test and in p_program are resolved.",
    "C17": "C17.f: the reader opens the file on every path, keeps no module-level state between executions, and feeds csv.reader the file's own lines with their terminators.",
    "C18": "C18.f: no shape-changing operation between the file variable and the result, nor before the write; C18.g: the output data model (format=) holds every integer width the reader's type table delivers.",
    "C19": "C19.a: the loader never consults sys.modules (what is offered does not depend on import history).",
    "C20": "C20.e: every return of ListParameter.clean is the item-wise clean (raw items handed back uncleaned keep the loader's wrappers).",
}
ADDED6 = {
    "C01": "C01.h accepts lookups after the loading loop and lookups whose miss reaches no additional raise; C01.e accepts a deepcopy whose memo maps every referenced command to itself.",
    "C14": "C14.g: a recursive walk of the reference graph marks a command before it descends (a mark after the descent never stops a loop).",
    "C19": "C19.a/b/c: accumulated selections dedup and follow loading; an extra condition on the duplicate gate must follow from the duplicates; a class-level record of completed loads compared by identity with sys.modules is accepted.",
    "C20": "C20.d: a value remembered on the parameter object is keyed by every parameter the method reads.",
}
ADDED7 = {
    "C01": "C01.i: every in-progress mark Command.run sets is taken back on every exit, normal or exceptional. C01.b answers 'cannot decide' for a release protocol; C01.a folds a one-attribute object() placeholder.",
    "C02": "C02.i: no numeric argument is tested for truthiness in any execute body; C02.j: MeanToMid anchors its curve on the whole input; C02.b: no list argument is edited in place, no cached helper (lru_cache and the like) on an execute's path; C02.a concerns load-time lookups only.",
    "C03": "C03.a: a return chosen by a test on an input's own statistic must cover that input's missing cells.",
    "C04": "C04.e covers every consumer of results (writers and printers included); an unclamped return reachable only when every optional threshold is absent is 'cannot decide' (numerical).",
    "C07": "C07.e: arithmetic commands write through no input array and edit no list argument; C07.c accepts a raw quotient whose non-finite cells are masked before it is returned, and numpy.ma.average for the weighted mean.",
    "C08": "C08.l: conversions edit no value list they were given; C08.k: no bisection (searchsorted) over a table that nothing sorted.",
    "C10": "C10.h: bounded enumeration (words of up to 5 characters over 9 letters) over the extracted token automata and grammar - a word re-spelled through a numeric token outside the number syntax recorded with the known finding is a new defect.",
    "C11": "C11.h: no handler outside Command.run stores a line on an error it caught.",
    "C12": "C12.h: the parser keeps no flag from one source to the next (per-parse EEMS 2.0 marker).",
    "C13": "C13.f: attributes the validation pre-pass reads on referenced commands are plain data, or computed without recursion along references and without using a raw argument as a key before a kind test.",
    "C14": "C14.h: no non-reentrant lock is held across run / execute / .result in Command. C14.b/c/d accept a guard relocated into ResultParameter.clean only as 'cannot decide', a sweep filtered or skipped on the finished flag, and an iterative reference walk with a test-stop-record guard.",
    "C15": "C15.f: taint analysis over to_string and its nested helpers - text that already holds a serialised value is only inserted, never used as the format template, never rewritten by content.",
    "C16": "C16.b: the surviving arguments are decided per argument name by abstract evaluation of the conversion loop; a result-name source carried over between commands is a violation.",
    "C17": "C17.g: the writer reads every result before it opens its output; C17.h: no result cache on the reader's or writer's path.",
    "C18": "C18.h: results are read before the output dataset is created; C18.i: no result cache; C18.e: automatic scaling / masking is never switched off for one side of the coordinate copy only; C18.a: a sign test on converted data is accepted only under a test admitting Positive Float alone.",
    "C19": "C19.d: the library request is never tested for truthiness (a default may stand in for None only).",
    "C20": "Engine D analyses NumberParameter also for the raw kind 'number' (a numbers.Number that is not int / float / bool): it must have an identity path (C20.c).",
}
ADDED8 = {
    "C01": "C01.j: utils.flatten descends into non-text containers only (a descent test that a string satisfies never ends).",
    "C02": "C02.k: no reference walk reports a result reached along two chains as a loop (a cycle test on a path collection that is never unwound).",
    "C05": "A stack of raveled layers is tracked as flattened (a layer of it is not the grid).",
    "C06": "C06.g: operators keep nothing between executions (decided before the array analyser runs).",
    "C07": "C07.d: every return of WeightedSum / WeightedMean depends on the weights.",
    "C08": "C08.l also covers dictionaries that live in class or module scope (updated in place).",
    "C09": "C09.c: nothing outside Command.run / __init__ stores to a command's memo.",
    "C10": "C10.i: the text reaches the lexer unchanged; C10.j: nothing is raised on a test of the raw text before the parse call.",
    "C11": "C11.d: an Argument carries its own node's line; C11.c: a pair / element does not take its line from a node built in a later symbol's action; C11.a accepts the counter put back to 1 on every way out of parse(); C11.h accepts a line read off the caught error itself.",
    "C12": "C12.b: commands are started by Program.run alone (no other code walks the command table calling run() / .result); a validation cache keyed by a remembered state is 'cannot decide'.",
    "C13": "C13.g: in Program.run a raw argument value goes to clean() or an isinstance test only.",
    "C14": "C14.i: the EEMS 2.0 conversion yields one command per old command (a dropped self-reference is an unreported cycle).",
    "C15": "C15.g: argument values are assigned by the constructor only.",
    "C16": "C16.b: one converted node per old command; a refusal by name pattern is judged by language inclusion of the ID token in the pattern.",
    "C17": "C17.i: csv readers / writers get constant format options (no sniffed dialect); C17.e looks into helpers nested in execute; C17.c decides the blank-row guard for the empty row and for a row of empty cells.",
    "C18": "C18.a: the cleaner's reading of a type name and the reader's tests on it agree.",
    "C19": "C19.e: constructing a program does not change sys.path / sys.modules / meta_path; C19.c: registration conditional on the class body defining execute is a violation, other conditions 'cannot decide'.",
    "C20": "Engine D explores unset configuration attributes (`self.x is None`) and knows asarray from asanyarray.",
}
ADDED9 = {
    "C14": "C14.j: wherever a try evaluates other commands, the first handler admitting RecursiveModelStructure hands it on (re-raise, or a non-zero exit in the command-line tool).",
    "C05": "A stack whose layer axis was moved last (numpy.moveaxis(stack, 0, -1)) is followed through sort / slice / mean along that axis.",
    "C07": "A shortcut return that the weights only select (not enter) is 'cannot decide'.",
    "C17": "C17.i: a dialect chosen among fixed dialect classes at run time is 'cannot decide'; C17.e accepts an int() guarded by the exact-bits round trip.",
    "C19": "C19.e: a module registered in sys.modules inside a try whose finally removes entries is 'cannot decide'.",
}
ADDED10 = {
    "C01": "C01.k: no weak references to programs / commands in Command and Program; C01.l: DataParameter.clean (applied to finished producers only) accepts every array.",
    "C02": "C02.l: the exclusive-or's singular quotient is selected away, not patched through a masked index; C02.m: MeanToMid drops the inner one of two coinciding control points from both lists (no mapping over the pairs); C02.j also requires the two half means to partition the cells.",
    "C05": "ravel / flatten / reshape with order= other than 'C' (axiom A32).",
    "C07": "C07.c: WeightedMean divides by the weight sum itself; C07.b: the messages of the three specific errors format without raising (named placeholders included).",
    "C08": "C08.m: coinciding control points (as C02.m); C08.h: the half means are taken over complementary sides of the overall mean.",
    "C09": "C09.d: no execute hands out arrays kept in module-level state or by a cached helper.",
    "C10": "C10.k: per-parse state does not survive a parse - a fresh Parser counts only when its PLY parser is built by and bound to that object.",
    "C11": "C11.e: inside a cleaner the reported line is the `lineno` parameter, not `<value>.lineno`.",
    "C12": "C12.i: relative paths are refused only when the working directory is None; C12.j: the library-membership predicate (C19.a) decides which command names exist.",
    "C13": "C13.h: nothing orders by the optional `.lineno`; C13.d checks named format placeholders.",
    "C15": "C15.h: the text reaches the lexer unchanged (C10.i); C15.b: no bare return of a string that is not a result reference.",
    "C17": "C17.i: reader and writer are given the same format options; C17.d: nothing removes rows between the stacked results and the file.",
    "C18": "C18.a: the rounding guard reads the dtype of the values it rounds; C18.d: no variable is stored inside the loop that accumulates the union mask.",
    "C19": "C19.a: tuple-prefix tests and a filter delegated to the registry accessor (unescaped regular expression); C19.c: a class-level lookup filled by __init__.",
    "C20": "C20.g: the declared kind is accepted on every path; C20.e: InvalidRelativePath by `is None`, data-type objects looked up in the table.",
}
ADDED11 = {
    "C03": "C03.a: a plain ufunc with out= writes into a target built as a masked array (a copy of an input as it came drops the other operands' masks when that input is a plain array).",
    "C05": "C05.c: the list handed to validate_array_shapes is the inputs as first built (provenance on the control-flow graph: no filter or rebuilding call on the way).",
    "C06": "C06.e: out= targets as in C03.a.",
    "C08": "C08.m decides the clean-up of coinciding control points by evaluating it on symbolic points for the four coincidence situations.",
    "C11": "C11.a: without tracking=True every production of a nonterminal whose line is read stores the line of its first token.",
    "C13": "C13.e / C14.j accept a handler that returns a non-zero status which every caller hands to sys.exit.",
    "C01": "C01.f accepts an early return under a flag that provably means 'every command finished'.",
}
ADDED15 = {
    "C09": "C09.a: out= of the logical ufuncs (logical_or / logical_and / logical_xor) is an in-place site; `getmaskarray(x)` is x's own mask whenever x carries one.",
    "C03": "C03.a: the accumulator named as out= of an in-place mask union holds the union afterwards.",
    "C13": "C13.d: no __str__ uses a payload as the format TEMPLATE (text built at the raise sites with model names interpolated - a brace in a name raises while the message is printed), unless every construction passes a literal for it.",
    "C15": "C15.b: a value written between SINGLE quotes owes the same escaping (the backslash, then the single quote unless a `\"'\" not in text` test rules it out).",
}
ADDED15["C10"] = "C10.f: the operand of the escape decoding is followed through a name the decoding itself rebinds (text handed to the codec is its UTF-8 bytes read as Latin-1)."
ADDED15["C16"] = "C16.b: a result name assigned for both candidate arguments in one walk over the arguments, without a look at what it holds and without a break, is decided (the one written last wins)."
for _k, _v in ADDED15.items():
    CLAIMS[_k]["text"] += " " + _v
ADDED14 = {
    "C01": "C01.o: a command object given as an argument value is stored as that object, not as its result name.",
    "C02": "C02.n: curve commands sort their control points themselves (C08.b); C02.o: the pivot of a partial layer ordering is valid for every legal count.",
    "C03": "C03.h: the exclusive-or leaves no present cell missing (C06.d's guarded quotient).",
    "C04": "C04.g: the selected-layer mean is a masked mean; curve segment tests have one strict end.",
    "C06": "C06.b: a sorted input list is not paired with weights that stay as listed.",
    "C08": "C08.q: no (+ - *) between the field and a number while neither is known to be floating (narrow integer grids wrap); C08.r: no standard deviation from the mean of the squares.",
    "C10": "C10.m: L(STRING) lies between the single-line quoted strings and the strings that end at their own closing quote (DFA inclusions); C10.n: number tokens are refused only in the handler of the conversion.",
    "C11": "C11.i: a failed command is not left finished (C14.f); C11.j: nested list arguments carry their own line.",
    "C12": "C12.m: nothing is memoised on a command class behind hasattr / getattr.",
    "C13": "C13.i: a possibly empty answer (get_close_matches, findall, glob ...) is not indexed directly.",
    "C15": "C15.j: tuple values are text after cleaning (the serialiser quotes them); C15.k: free text of the model reaches the output only through the quoting helpers.",
    "C17": "C17.c: the handler of the cell parse always raises; C17.d: the header row is the result names themselves.",
    "C18": "C18.l: the reader applies no value-based masking beyond the missing-value comparison.",
    "C19": "C19.f: the process-wide registry is read by Program.__init__ only; C19.b: every admitted command reaches the duplicate count.",
    "C20": "C20.h: a tuple cleans to {text: text}; the raw mapping is returned only under a test of keys and values.",
}
for _k, _v in ADDED14.items():
    CLAIMS[_k]["text"] += " " + _v
ADDED13 = {
    "C10": "C10.l: every sentence of up to 12 (thorough: 13) token names the grammar derives is accepted by the generated table - one obligation per silently resolved conflict (one known finding: `[a:b, c]`). C10.e also runs the layout forms through the LALR(1) table generated from the extracted productions (yacc's conflict resolution): a form the grammar derives but the generated parser refuses is the violation.",
    "C03": "Engine C: a generator over the inputs is one-shot (a second reader finds an unknown rest); `nomask` under `not any(m.any() for m in masks)` is the empty union of all input masks.",
    "C04": "Engine C: clip(x, lo, hi, out=x) limits x in place and, through a data view, its masked owner; asarray with dtype= is not known to be the operand's buffer.",
    "C15": "C15.b: the decoder may be spelled codecs.decode / codecs.escape_decode; round-trip witnesses include text outside ASCII.",
    "C16": "C16.b: the parsed argument list may be passed through when a container of its names holds neither dropped name.",
    "C14": "C14.k accepts a cleaner that evaluates references when every run() sets the in-progress flag before it validates.",
}
for _k, _v in ADDED13.items():
    CLAIMS[_k]["text"] += " " + _v
ADDED12 = {
    "C01": "C01.m: no execute body writes through an input (Engine C); C01.n: a cycle report needs a repeated node on the current path, not in the set of all nodes reached before.",
    "C03": "C03.g: nothing read or computed is kept between executions unless every array taken out of what is kept is copied.",
    "C04": "C04.f: the InvalidThresholds guard compares the final threshold values (reaching definitions).",
    "C05": "C05.b: putmask / place / put / copyto with a shorter value vector and vectorize without otypes are position dependent.",
    "C06": "C06.d: the two truest values are taken over all layers at once - a pairwise fold in FuzzyXOr is the violation.",
    "C07": "C07.f: every execute signature accepts every declared input plus Metadata.",
    "C08": "C08.n: conversions index cell by cell (no single axis of where/nonzero applied to the array); C08.o: Direction is read only where a default threshold is chosen.",
    "C09": "C09.a: a starred call of a binary ufunc writes its third operand.",
    "C10": "C10.f: the string body reaches the decoder as written (a backslash-plus-lookahead pre-pass is the violation, other pre-passes are undecided).",
    "C11": "C11.e: a lineno handed to an error by a library command is a line of the command file.",
    "C12": "C12.k: no result lookup while the file is being loaded; C12.l: no shipped command sets allow_extra_inputs.",
    "C13": "C13.c: the handler around the string decoder covers the exception of the decoder actually called.",
    "C14": "C14.j: an MPilotError goes on unchanged; C14.k: cleaners touch .result only under the is_finished guard.",
    "C15": "C15.i: no memoised helper on the to_string path.",
    "C16": "C16.b: the EEMS 2.0 conversion builds new nodes and leaves the parsed ones alone.",
    "C17": "C17.j: the column is selected by the field name as given.",
    "C18": "C18.j: a Fuzzy read is clamped on the returned object; C18.k: MissingValue is not narrowed on a live path.",
    "C19": "C19.d: library names are used as given (no strip-family call with a multi-character argument); C19.a: no fixed module is admitted regardless of the selection.",
}
for _k, _v in ADDED12.items():
    CLAIMS[_k]["text"] += " " + _v
for _k, _v in ADDED11.items():
    CLAIMS[_k]["text"] += " " + _v
for _k, _v in ADDED10.items():
    CLAIMS[_k]["text"] += " " + _v
for _k, _v in ADDED9.items():
    CLAIMS[_k]["text"] += " " + _v
for _k, _v in ADDED8.items():
    CLAIMS[_k]["text"] += " " + _v
for _k, _v in ADDED7.items():
    CLAIMS[_k]["text"] += " " + _v
for _k, _v in ADDED6.items():
    CLAIMS[_k]["text"] += " " + _v
for _k, _v in ADDED5.items():
    CLAIMS[_k]["text"] += " " + _v
for _k, _v in ADDED4.items():
    CLAIMS[_k]["text"] += " " + _v
for _k, _v in ADDED.items():
    CLAIMS[_k]["text"] += " " + _v
