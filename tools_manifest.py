#!/usr/bin/env python3
"""Regenerates MANIFEST.json from the CLAIMS table below (keeps the interface file consistent)."""
import json, os
HERE = os.path.dirname(os.path.abspath(__file__))
NOTE_BASE = ("Trusted base: Python semantics as modelled by the analyser's CFG/abstract domains, the folded configuration "
             "constants (six.PY3, numpy>=1.10 from pyproject.toml), and for array rules the numpy axioms in engine/numpy_axioms.md. ")
CLAIMS = {}
NA = {}
exec(open(os.path.join(HERE, "claims.py")).read())
props = [json.loads(l) for l in open(os.path.join(HERE, "properties.jsonl"))]
checks = []
for p in props:
    pid = p["id"]
    if pid in CLAIMS:
        c = CLAIMS[pid]
        checks.append({
            "property_id": pid,
            "quick_cmd": "./check %s --tier quick" % pid,
            "thorough_cmd": "./check %s --tier thorough" % pid,
            "evidence_file": "/verif/evidence/%s.json" % pid,
            "replay_cmd_template": "./check %s --replay {path}" % pid,
            "engine": c.get("engine", "static"),
            "level_claimed": {"category": "other", "text": c["text"], "design_ref": "DESIGN.md section 3, %s" % pid},
            "level_note": NOTE_BASE + c.get("note", ""),
            "technique": c["technique"],
        })
na = [{"property_id": p["id"], "reason": NA.get(p["id"], "check under construction in this session; not yet claimed")} for p in props if p["id"] not in CLAIMS]
m = {
    "version": 1,
    "setup_cmd": "/venv/bin/python -B -c \"import ast,sys; [ast.parse(open(f).read()) for f in sys.argv[1:]]\" check.py engine/*.py rules/*.py",
    "hooks": {"guard": "MPILOT_VERIF", "enable": "none needed: static analysis reads /repo source; no hook code exists in /repo (guard name reserved, unused)",
              "baseline_off_cmd": "cd /repo && /venv/bin/python -m pytest -ra -q -p no:cacheprovider --timeout=900 --continue-on-collection-errors",
              "source_commits": FIX_COMMITS, "add_only": True},
    "engines": ENGINES,
    "checks": checks,
    "notes": "Technique family: static analysis only (ast, CFG/dominance, abstract interpretation, call-graph reachability, regular-language inclusion). Exit 2 + ANALYSIS-ERROR means 'cannot decide'. See DESIGN.md.",
    "not_applicable": na,
}
json.dump(m, open(os.path.join(HERE, "MANIFEST.json"), "w"), indent=1)
print("claims:", len(checks), "not_applicable:", len(na))
